package interp

// verifMemo(key, f): the result of a computation that depends on nothing but the (concrete) key
// is computed once per worker and shared by later paths. The computation must be free of
// decisions and nondeterministic values (checked); it runs with the store journal off, so what
// it allocates survives the end of the path that computed it, exactly like package
// initialisers. Used for parsing and compiling concrete program texts.
type memoEntry struct {
	v     value
	funcs map[string]int
}

func apiMemo(fr *frame, a []value) value {
	i := fr.i
	key := concStr(a[0], "verifMemo key")
	if e, ok := i.memo[key]; ok {
		for k, n := range e.funcs {
			i.pathFuncs[k] += n
		}
		return e.v
	}
	if i.memo == nil {
		i.memo = map[string]memoEntry{}
	}
	savedJournal, savedFuncs, savedSteps, savedMax := i.journalOn, i.pathFuncs, i.steps, i.maxSteps
	nTrace, nNondet := len(i.trace), len(i.nondets)
	i.journalOn = false
	i.pathFuncs = map[string]int{}
	i.steps = 0
	i.maxSteps = 20 * savedMax // amortised over every path that shares the result
	i.extraDepth = 20000
	restore := func() {
		i.journalOn = savedJournal
		for k, n := range i.pathFuncs {
			savedFuncs[k] += n
		}
		i.pathFuncs = savedFuncs
		i.steps = savedSteps
		i.maxSteps = savedMax
		i.extraDepth = 0
	}
	var v value
	func() {
		defer func() {
			if r := recover(); r != nil {
				restore()
				panic(r)
			}
		}()
		v = i.call(fr, fr.callpos, a[1], nil)
	}()
	funcs := i.pathFuncs
	restore()
	if len(i.trace) != nTrace || len(i.nondets) != nNondet {
		panic(unsupported("decision or nondeterministic value inside verifMemo"))
	}
	i.memo[key] = memoEntry{v: v, funcs: funcs}
	return v
}
