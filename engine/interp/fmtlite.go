package interp

import (
	"fmt"
	"go/token"
	"go/types"
	"strings"

	"golang.org/x/tools/go/ssa"

	"symgo/smt"
)

// findMethod returns the exported method name of T's method set, or nil.
func (sh *Shared) findMethod(T types.Type, name string) *ssa.Function {
	ms := sh.prog.MethodSets.MethodSet(T)
	sel := ms.Lookup(nil, name)
	if sel == nil {
		return nil
	}
	return sh.prog.MethodValue(sel)
}

var tokenADD = token.ADD

func typeOfValue(v value) types.Type {
	switch v.(type) {
	case int32:
		return types.Typ[types.Int32]
	case int64:
		return types.Typ[types.Int64]
	case uint32:
		return types.Typ[types.Uint32]
	case uint64:
		return types.Typ[types.Uint64]
	case uintptr:
		return types.Typ[types.Uintptr]
	case int:
		return types.Typ[types.Int]
	}
	if s, ok := v.(*sym); ok {
		switch s.t.S.W {
		case 32:
			return types.Typ[types.Int32]
		case 64:
			return types.Typ[types.Int64]
		}
	}
	return types.Typ[types.Int]
}

var fakeRtype = types.NewNamed(types.NewTypeName(token.NoPos, nil, "reflect.rtype(model)", nil), types.NewStruct(nil, nil), nil)

func (sh *Shared) rtypeType() types.Type { return fakeRtype }

// ---- fmt-lite: Sprintf over guest values ----

// hostScalar converts a concrete guest scalar to a host value usable with fmt.
func hostScalar(v value) (interface{}, bool) {
	switch v := v.(type) {
	case bool, int, int8, int16, int32, int64, uint, uint8, uint16, uint32, uint64, uintptr, float32, float64, complex64, complex128, string:
		return v, true
	}
	return nil, false
}

// formatOperand renders one operand under verb (with flags) to a guest string value.
func (i *interpreter) formatOperand(fr *frame, spec string, verb byte, arg value) value {
	it, isIface := arg.(iface)
	var dyn value = arg
	var dynT types.Type
	if isIface {
		if it.t == nil {
			if verb == 'v' || verb == 's' {
				return "<nil>"
			}
			return "%!" + string(verb) + "(<nil>)"
		}
		dyn, dynT = it.v, it.t
	}
	if _, ok := dyn.(poison); ok {
		panic(unsupported("formatting poison"))
	}
	// Formatter, error, Stringer on the dynamic type
	if dynT != nil {
		if m := i.sh.findMethod(dynT, "Format"); m != nil && m.Signature.Params().Len() == 2 {
			return i.callFormatter(fr, m, dyn, spec, verb)
		}
		if verb == 'v' || verb == 's' || verb == 'q' {
			if m := i.sh.findMethod(dynT, "Error"); m != nil && m.Signature.Params().Len() == 0 {
				s := i.call(fr, 0, m, []value{dyn})
				return i.formatOperand(fr, spec, verb, s)
			}
			if m := i.sh.findMethod(dynT, "String"); m != nil && m.Signature.Params().Len() == 0 && m.Signature.Results().Len() == 1 {
				s := i.call(fr, 0, m, []value{dyn})
				return i.formatOperand(fr, spec, verb, s)
			}
		}
	}
	if h, ok := hostScalar(dyn); ok {
		return fmt.Sprintf("%"+spec+string(verb), h)
	}
	switch d := dyn.(type) {
	case symstr:
		if (verb == 's' || verb == 'v') && spec == "" {
			return d
		}
	case *sym:
		switch {
		case verb == 'c' && spec == "":
			t := d.t
			if t.S.W != 32 {
				t = i.st.Resize(t, 32, true)
			}
			return normStr(i.encodeRune(i.fromTerm(t, kindInt32)))
		case verb == 'x' && (spec == "02" || spec == ""):
			t8 := d.t
			if t8.S.W != 8 {
				// wider integers: only when the path condition confines the value to one byte
				inByte := i.st.BVCmp("bvult", t8, i.st.Const(t8.S, 256))
				if !i.decide(inByte) {
					panic(unsupported("formatting a symbolic integer >= 256 with %x"))
				}
				t8 = i.st.Extract(7, 0, t8)
			}
			hi := i.hexDigit(i.st.BVBin("bvlshr", t8, i.st.Const(smt.BV(8), 4)))
			lo := i.hexDigit(i.st.BVBin("bvand", t8, i.st.Const(smt.BV(8), 15)))
			if spec == "" {
				// no padding: one digit when the value is < 16
				if i.decide(i.st.BVCmp("bvult", t8, i.st.Const(smt.BV(8), 16))) {
					return normStr([]value{lo})
				}
			}
			return normStr([]value{hi, lo})
		}
		// a signed integer with a small known range: fork on its value and format natively
		if (verb == 'd' || verb == 'v') && d.t.S.K == smt.KBV {
			if lo, hi, ok := i.st.RangeOf(d.t, true); ok && hi-lo <= 32 {
				var conds []*smt.Term
				for c := lo; c <= hi; c++ {
					conds = append(conds, i.st.Eq(d.t, i.st.Const(d.t.S, uint64(c))))
				}
				if k := i.chooseN(conds); k >= 0 {
					return fmt.Sprintf("%"+spec+string(verb), lo+int64(k))
				}
				panic(pathAbort{"assume", "concretize out of range"})
			}
		}
		panic(unsupported(fmt.Sprintf("formatting a symbolic scalar with %%%s%c", spec, verb)))
	case []value:
		// []byte with %s / %x
		if verb == 's' || verb == 'v' && dynT != nil && isByteSlice(dynT) {
			out := make([]value, len(d))
			copy(out, d)
			return normStr(out)
		}
	case *value:
		if d == nil {
			return "<nil>"
		}
		return "0xc000000000"
	}
	panic(unsupported(fmt.Sprintf("fmt-lite: operand %T (type %v) with %%%s%c", dyn, dynT, spec, verb)))
}

func isByteSlice(t types.Type) bool {
	if s, ok := t.Underlying().(*types.Slice); ok {
		if b, ok := s.Elem().Underlying().(*types.Basic); ok {
			return b.Kind() == types.Uint8
		}
	}
	return false
}

func (i *interpreter) hexDigit(n *smt.Term) value {
	st := i.st
	d := st.Ite(st.BVCmp("bvult", n, st.Const(smt.BV(8), 10)),
		st.BVBin("bvadd", n, st.Const(smt.BV(8), '0')),
		st.BVBin("bvadd", n, st.Const(smt.BV(8), 'a'-10)))
	return i.fromTerm(d, kindUint8)
}

func (i *interpreter) sprintf(fr *frame, format value, args []value) value {
	f, ok := format.(string)
	if !ok {
		panic(unsupported("Sprintf with a symbolic format string"))
	}
	var out []value
	argi := 0
	for p := 0; p < len(f); {
		c := f[p]
		if c != '%' {
			out = append(out, c)
			p++
			continue
		}
		p++
		if p >= len(f) {
			out = append(out, strOf("%!(NOVERB)").b...)
			break
		}
		q := p
		for q < len(f) && strings.IndexByte("+-# 0123456789.*", f[q]) >= 0 {
			q++
		}
		if q >= len(f) {
			out = append(out, strOf("%!(NOVERB)").b...)
			break
		}
		spec, verb := f[p:q], f[q]
		p = q + 1
		if verb == '%' {
			out = append(out, uint8('%'))
			continue
		}
		if strings.Contains(spec, "*") {
			panic(unsupported("Sprintf with * width"))
		}
		if argi >= len(args) {
			out = append(out, strOf("%!"+string(verb)+"(MISSING)").b...)
			continue
		}
		arg := args[argi]
		argi++
		if verb == 'T' {
			if it, ok := arg.(iface); ok && it.t != nil {
				out = append(out, strOf(typeString(it.t)).b...)
			} else {
				out = append(out, strOf("<nil>").b...)
			}
			continue
		}
		s := i.formatOperand(fr, spec, verb, arg)
		out = append(out, strBytes(s)...)
	}
	if argi < len(args) {
		out = append(out, strOf("%!(EXTRA …)").b...)
	}
	return normStr(out)
}

func (i *interpreter) sprint(fr *frame, args []value, ln bool) value {
	var out []value
	for k, a := range args {
		if k > 0 && ln {
			out = append(out, uint8(' '))
		}
		out = append(out, strBytes(i.formatOperand(fr, "", 'v', a))...)
	}
	if ln {
		out = append(out, uint8('\n'))
	}
	return normStr(out)
}

// callFormatter runs a guest Format(fmt.State, rune) method against an executor-provided
// fmt.State (the model type hash.ModelFmtState, defined in the overlay of package hash).
func (i *interpreter) callFormatter(fr *frame, m *ssa.Function, recv value, spec string, verb byte) value {
	pkg := i.sh.prog.ImportedPackage("github.com/arr-ai/hash")
	if pkg == nil || pkg.Type("ModelFmtState") == nil {
		panic(unsupported("Formatter operand but no ModelFmtState available"))
	}
	T := pkg.Type("ModelFmtState").Type()
	// struct { buf []byte; flags string; wid, prec int; hasWid, hasPrec bool }
	wid, prec, hasWid, hasPrec := 0, 0, false, false
	flags := ""
	rest := spec
	for len(rest) > 0 && strings.IndexByte("+-# 0", rest[0]) >= 0 {
		flags += rest[:1]
		rest = rest[1:]
	}
	if k := strings.IndexByte(rest, '.'); k >= 0 {
		fmt.Sscanf(rest[k+1:], "%d", &prec)
		hasPrec = true
		rest = rest[:k]
	}
	if rest != "" {
		fmt.Sscanf(rest, "%d", &wid)
		hasWid = true
	}
	var cell value = structure{[]value(nil), flags, wid, prec, hasWid, hasPrec}
	p := &cell
	state := iface{t: types.NewPointer(T), v: p}
	i.call(fr, 0, m, []value{recv, state, int32(verb)})
	buf := (*p).(structure)[0].([]value)
	out := make([]value, len(buf))
	copy(out, buf)
	return normStr(out)
}
