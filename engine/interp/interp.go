// Package interp is a bounded symbolic executor for Go SSA: a forking interpreter with a
// concrete heap and control flow and symbolic scalars, backed by an SMT solver.
//
// The concrete-execution skeleton (frames, instruction dispatch, defer/recover, interface and
// type-assert rules) is derived from golang.org/x/tools@v0.29.0/go/ssa/interp (BSD-3-Clause,
// see LICENSE.x-tools).
package interp

import (
	"fmt"
	"go/token"
	"go/types"
	"runtime"
	"slices"
	"strings"

	"golang.org/x/tools/go/ssa"

	"symgo/smt"
)

const (
	kindInt32 = types.Int32
	kindUint8 = types.Uint8
	kindInt   = types.Int
)

type continuation int

const (
	kNext continuation = iota
	kReturn
	kJump
)

// ---- engine control-flow panics (never visible to the guest program) ----

// pathAbort ends the current path.
type pathAbort struct {
	kind string // "assume", "violation", "incomplete", "done"
	msg  string
}

type unsupportedErr struct{ msg string }

func unsupported(msg string) unsupportedErr { return unsupportedErr{msg} }

// engineError wraps a host runtime error raised inside the interpreter implementation.
type engineError struct {
	err   interface{}
	stack string
}

func isEngineAbort(r interface{}) bool {
	switch r.(type) {
	case pathAbort, unsupportedErr, engineError, goexit:
		return true
	}
	return false
}

type deferred struct {
	fn    value
	args  []value
	instr *ssa.Defer
	tail  *deferred
}

type frame struct {
	i                *interpreter
	caller           *frame
	fn               *ssa.Function
	block, prevBlock *ssa.BasicBlock
	env              map[ssa.Value]value
	locals           []value
	defers           *deferred
	result           value
	panicking        bool
	panic            interface{}
	phitemps         []value
	tolerant         bool // package initialiser: unsupported operations yield poison
	cur              ssa.Instruction
	callpos          token.Pos
}

func (fr *frame) get(key ssa.Value) value {
	switch key := key.(type) {
	case nil:
		return nil
	case *ssa.Function, *ssa.Builtin:
		return key
	case *ssa.Const:
		return constValue(key)
	case *ssa.Global:
		if r, ok := fr.i.globals[key]; ok {
			return r
		}
		return fr.i.globalAddr(key)
	}
	if r, ok := fr.env[key]; ok {
		return r
	}
	panic(fmt.Sprintf("get: no value for %T: %v in %s", key, key.Name(), fr.fn))
}

func (fr *frame) runDefer(d *deferred) {
	var ok bool
	defer func() {
		if !ok {
			r := recover()
			if isEngineAbort(r) {
				panic(r)
			}
			fr.panicking = true
			fr.panic = r
		}
	}()
	fr.i.call(fr, d.instr.Pos(), d.fn, d.args)
	ok = true
}

func (fr *frame) runDefers() {
	for d := fr.defers; d != nil; d = d.tail {
		fr.runDefer(d)
	}
	fr.defers = nil
	if fr.panicking {
		panic(fr.panic)
	}
}

func (i *interpreter) lookupMethod(typ types.Type, meth *types.Func) *ssa.Function {
	return i.sh.lookupMethod(typ, meth)
}

// guestPanic raises a Go run-time panic in the guest program.
func (i *interpreter) guestPanic(msg string) {
	i.notePanicRaised()
	panic(targetPanic{iface{t: i.sh.runtimeErrorString, v: msg}})
}

func (fr *frame) posString(pos token.Pos) string {
	if pos == token.NoPos {
		return fr.fn.String()
	}
	p := fr.i.sh.prog.Fset.Position(pos)
	return fmt.Sprintf("%s:%d", shortFile(p.Filename), p.Line)
}

func shortFile(f string) string {
	if k := strings.Index(f, "/repo/"); k >= 0 {
		return f[k+6:]
	}
	if k := strings.LastIndex(f, "/src/"); k >= 0 {
		return f[k+5:]
	}
	return f
}

// condBool resolves a possibly symbolic boolean by forking.
func (fr *frame) condBool(v value) bool {
	switch v := v.(type) {
	case bool:
		return v
	case *sym:
		return fr.i.decide(v.t)
	case poison:
		panic(unsupported("branch on poison: " + v.why))
	}
	panic(fmt.Sprintf("condBool: %T", v))
}

// index resolves an index into a sequence of length n; out-of-range raises a guest panic.
func (i *interpreter) index(idx value, n int, what string) int {
	if s, ok := idx.(*sym); ok {
		k := i.chooseIndex(s.t, n)
		if k < 0 {
			i.guestPanic(fmt.Sprintf("index out of range [symbolic] with length %d", n))
		}
		return k
	}
	k := asInt64(idx)
	if k < 0 || k >= int64(n) {
		i.guestPanic(fmt.Sprintf("index out of range [%d] with length %d", k, n))
	}
	return int(k)
}

// bound resolves a slice bound in [0, max].
func (i *interpreter) bound(idx value, max int) int {
	if s, ok := idx.(*sym); ok {
		k := i.chooseIndex(s.t, max+1)
		if k < 0 {
			i.guestPanic(fmt.Sprintf("slice bounds out of range [symbolic] with capacity %d", max))
		}
		return k
	}
	k := asInt64(idx)
	if k < 0 || k > int64(max) {
		i.guestPanic(fmt.Sprintf("slice bounds out of range [%d] with capacity %d", k, max))
	}
	return int(k)
}

func visitInstr(fr *frame, instr ssa.Instruction) continuation {
	i := fr.i
	switch instr := instr.(type) {
	case *ssa.DebugRef:
		// no-op

	case *ssa.UnOp:
		fr.env[instr] = fr.unop(instr, fr.get(instr.X))

	case *ssa.BinOp:
		fr.env[instr] = i.binop(instr.Op, instr.X.Type(), fr.get(instr.X), fr.get(instr.Y))

	case *ssa.Call:
		fn, args := fr.prepareCall(&instr.Call)
		fr.env[instr] = i.call(fr, instr.Pos(), fn, args)

	case *ssa.ChangeInterface:
		fr.env[instr] = fr.get(instr.X)

	case *ssa.ChangeType:
		fr.env[instr] = fr.get(instr.X)

	case *ssa.Convert:
		fr.env[instr] = i.conv(instr.Type(), instr.X.Type(), fr.get(instr.X))

	case *ssa.SliceToArrayPointer:
		x := fr.get(instr.X).([]value)
		arr := deref(instr.Type()).Underlying().(*types.Array)
		if arr.Len() > int64(len(x)) {
			i.guestPanic("cannot convert slice to array pointer: length too short")
		}
		if x == nil {
			fr.env[instr] = (*value)(nil)
		} else {
			v := value(array(x[:arr.Len()]))
			fr.env[instr] = &v
		}

	case *ssa.MakeInterface:
		fr.env[instr] = iface{t: instr.X.Type(), v: fr.get(instr.X)}

	case *ssa.Extract:
		t := fr.get(instr.Tuple)
		if p, ok := t.(poison); ok {
			fr.env[instr] = p
		} else {
			fr.env[instr] = t.(tuple)[instr.Index]
		}

	case *ssa.Slice:
		fr.env[instr] = i.slice(fr.get(instr.X), fr.get(instr.Low), fr.get(instr.High), fr.get(instr.Max))

	case *ssa.Return:
		switch len(instr.Results) {
		case 0:
		case 1:
			fr.result = fr.get(instr.Results[0])
		default:
			var res []value
			for _, r := range instr.Results {
				res = append(res, fr.get(r))
			}
			fr.result = tuple(res)
		}
		fr.block = nil
		return kReturn

	case *ssa.RunDefers:
		fr.runDefers()

	case *ssa.Panic:
		i.notePanicRaised()
		panic(targetPanic{fr.get(instr.X)})

	case *ssa.Send:
		i.chanSend(fr.get(instr.Chan).(*gochan), fr.get(instr.X))

	case *ssa.Store:
		addr := fr.get(instr.Addr)
		if p, ok := addr.(poison); ok {
			panic(unsupported("store through poison pointer: " + p.why))
		}
		i.store(deref(instr.Addr.Type()), addr.(*value), fr.get(instr.Val))

	case *ssa.If:
		succ := 1
		if fr.condBool(fr.get(instr.Cond)) {
			succ = 0
		}
		fr.prevBlock, fr.block = fr.block, fr.block.Succs[succ]
		return kJump

	case *ssa.Jump:
		fr.prevBlock, fr.block = fr.block, fr.block.Succs[0]
		return kJump

	case *ssa.Defer:
		fn, args := fr.prepareCall(&instr.Call)
		defers := &fr.defers
		if into := fr.get(instr.DeferStack); into != nil {
			defers = into.(**deferred)
		}
		*defers = &deferred{fn: fn, args: args, instr: instr, tail: *defers}

	case *ssa.Go:
		fn, args := fr.prepareCall(&instr.Call)
		i.spawn(fr, instr.Pos(), fn, args)

	case *ssa.MakeChan:
		fr.env[instr] = i.makeChan(int(asInt64(fr.get(instr.Size))), instr.Type().Underlying().(*types.Chan).Elem())

	case *ssa.Alloc:
		var addr *value
		if instr.Heap {
			addr = new(value)
			fr.env[instr] = addr
		} else {
			addr = fr.env[instr].(*value)
		}
		*addr = zero(deref(instr.Type()))

	case *ssa.MakeSlice:
		n := i.sizeArg(fr.get(instr.Len), "makeslice: len out of range")
		c := i.sizeArg(fr.get(instr.Cap), "makeslice: cap out of range")
		if n > c {
			i.guestPanic("makeslice: cap out of range")
		}
		s := make([]value, c)
		tElt := instr.Type().Underlying().(*types.Slice).Elem()
		for k := range s {
			s[k] = zero(tElt)
		}
		fr.env[instr] = s[:n]

	case *ssa.MakeMap:
		fr.env[instr] = &gomap{keyType: instr.Type().Underlying().(*types.Map).Key()}

	case *ssa.Range:
		fr.env[instr] = i.rangeIter(fr.get(instr.X), instr.X.Type())

	case *ssa.Next:
		fr.env[instr] = fr.get(instr.Iter).(iter).next(i)

	case *ssa.FieldAddr:
		x := fr.get(instr.X)
		if p, ok := x.(poison); ok {
			panic(unsupported("field of poison: " + p.why))
		}
		px := x.(*value)
		if px == nil {
			i.guestPanic("invalid memory address or nil pointer dereference")
		}
		if p, ok := (*px).(poison); ok {
			panic(unsupported("field of poison: " + p.why))
		}
		fr.env[instr] = &(*px).(structure)[instr.Field]

	case *ssa.Field:
		x := fr.get(instr.X)
		if p, ok := x.(poison); ok {
			panic(unsupported("field of poison: " + p.why))
		}
		fr.env[instr] = x.(structure)[instr.Field]

	case *ssa.IndexAddr:
		x := fr.get(instr.X)
		idx := fr.get(instr.Index)
		switch x := x.(type) {
		case []value:
			fr.env[instr] = &x[i.index(idx, len(x), "slice")]
		case *value: // *array
			if x == nil {
				i.guestPanic("invalid memory address or nil pointer dereference")
			}
			a := (*x).(array)
			fr.env[instr] = &a[i.index(idx, len(a), "array")]
		case poison:
			panic(unsupported("index of poison: " + x.why))
		default:
			panic(fmt.Sprintf("unexpected x type in IndexAddr: %T", x))
		}

	case *ssa.Index:
		x := fr.get(instr.X)
		idx := fr.get(instr.Index)
		switch x := x.(type) {
		case array:
			fr.env[instr] = x[i.index(idx, len(x), "array")]
		case string:
			fr.env[instr] = x[i.index(idx, len(x), "string")]
		case symstr:
			fr.env[instr] = x.b[i.index(idx, len(x.b), "string")]
		default:
			panic(fmt.Sprintf("unexpected x type in Index: %T", x))
		}

	case *ssa.Lookup:
		fr.env[instr] = i.lookup(instr, fr.get(instr.X), fr.get(instr.Index))

	case *ssa.MapUpdate:
		m := fr.get(instr.Map).(*gomap)
		if m == nil {
			panic(targetPanic{iface{t: i.sh.runtimeErrorString, v: "assignment to entry in nil map"}})
		}
		i.mapInsert(m, fr.get(instr.Key), fr.get(instr.Value))

	case *ssa.TypeAssert:
		x := fr.get(instr.X)
		if p, ok := x.(poison); ok {
			panic(unsupported("type assertion on poison: " + p.why))
		}
		fr.env[instr] = i.typeAssert(instr, x.(iface))

	case *ssa.MakeClosure:
		var bindings []value
		for _, binding := range instr.Bindings {
			bindings = append(bindings, fr.get(binding))
		}
		fr.env[instr] = &closure{instr.Fn.(*ssa.Function), bindings}

	case *ssa.Phi:
		panic("unreachable: phi")

	case *ssa.Select:
		fr.env[instr] = i.selectStmt(fr, instr)

	default:
		panic(unsupported(fmt.Sprintf("instruction %T", instr)))
	}
	return kNext
}

func (i *interpreter) sizeArg(v value, msg string) int {
	if s, ok := v.(*sym); ok {
		// fork over small sizes
		k := i.chooseIndex(s.t, i.sh.cfg.MaxSymSize+1)
		if k < 0 {
			// either negative (guest panic) or beyond the stated cap (incomplete)
			neg := i.st.BVCmp("bvslt", i.resize64(s.t), i.st.Const(smt.BV(64), 0))
			if i.decide(neg) {
				i.guestPanic(msg)
			}
			panic(unsupported(fmt.Sprintf("symbolic size beyond cap %d", i.sh.cfg.MaxSymSize)))
		}
		return k
	}
	n := asInt64(v)
	if n < 0 || n > 1<<24 {
		i.guestPanic(msg)
	}
	return int(n)
}

func (i *interpreter) resize64(t *smt.Term) *smt.Term {
	return i.st.Resize(t, 64, true)
}

func (fr *frame) prepareCall(call *ssa.CallCommon) (fn value, args []value) {
	v := fr.get(call.Value)
	if call.Method == nil {
		fn = v
	} else {
		if p, ok := v.(poison); ok {
			panic(unsupported("method call on poison: " + p.why))
		}
		recv := v.(iface)
		if recv.t == nil {
			fr.i.guestPanic("invalid memory address or nil pointer dereference (method " + call.Method.Name() + " on nil interface)")
		}
		if rt, ok := recv.v.(rtype); ok {
			fn = &intrinsicFn{name: "(reflect.rtype)." + call.Method.Name()}
			_ = rt
		} else if f := fr.i.lookupMethod(recv.t, call.Method); f == nil {
			panic(fmt.Sprintf("method set for dynamic type %v does not contain %s", recv.t, call.Method))
		} else {
			fn = f
		}
		args = append(args, recv.v)
	}
	for _, arg := range call.Args {
		args = append(args, fr.get(arg))
	}
	return
}

// intrinsicFn is a function value implemented by the engine (used for fake method sets).
type intrinsicFn struct{ name string }

func (i *interpreter) call(caller *frame, callpos token.Pos, fn value, args []value) value {
	switch fn := fn.(type) {
	case *ssa.Function:
		if fn == nil {
			i.guestPanic("invalid memory address or nil pointer dereference (call of nil func)")
		}
		return i.callSSA(caller, callpos, fn, args, nil)
	case *closure:
		return i.callSSA(caller, callpos, fn.Fn, args, fn.Env)
	case *ssa.Builtin:
		return i.callBuiltin(caller, callpos, fn, args)
	case *nativeFn:
		return fn.f(i, args)
	case *intrinsicFn:
		if f := intrinsics[fn.name]; f != nil {
			return f(&frame{i: i, caller: caller}, args)
		}
		panic(unsupported("intrinsic method " + fn.name))
	case poison:
		panic(unsupported("call of poison function value: " + fn.why))
	}
	panic(fmt.Sprintf("cannot call %T", fn))
}

const maxCallDepth = 400

func (i *interpreter) callSSA(caller *frame, callpos token.Pos, fn *ssa.Function, args []value, env []value) value {
	fr := &frame{i: i, caller: caller, fn: fn, callpos: callpos}
	if fn.Parent() == nil {
		if caller != nil && caller.tolerant && fn.Name() == "init" && fn.Synthetic != "" {
			return nil // package initialisers are run by the executor in dependency order
		}
		if ext := i.sh.intrinsicFor(fn); ext != nil {
			i.noteModel(fn)
			return ext(fr, args)
		}
		if fn.Blocks == nil {
			panic(unsupported("no code for function: " + fn.String()))
		}
		if !i.sh.interpretable(fn) {
			panic(unsupported("call into opaque package: " + fn.String()))
		}
	}
	if fn.TypeParams().Len() > 0 && len(fn.TypeArgs()) == 0 {
		panic(unsupported("uninstantiated generic " + fn.String()))
	}
	i.depth++
	if i.depth > maxCallDepth+i.extraDepth {
		i.depth--
		panic(pathAbort{"incomplete", "call depth budget exceeded in " + fn.String()})
	}
	defer func() { i.depth-- }()
	i.noteFunc(fn)

	fr.env = make(map[ssa.Value]value, 16)
	fr.block = fn.Blocks[0]
	fr.locals = make([]value, len(fn.Locals))
	for k, l := range fn.Locals {
		fr.locals[k] = zero(deref(l.Type()))
		fr.env[l] = &fr.locals[k]
	}
	for k, p := range fn.Params {
		fr.env[p] = args[k]
	}
	for k, fv := range fn.FreeVars {
		fr.env[fv] = env[k]
	}
	for fr.block != nil {
		runFrame(fr)
	}
	return fr.result
}

func runFrame(fr *frame) {
	defer func() {
		if fr.block == nil {
			return // normal return
		}
		r := recover()
		if r == nil {
			return
		}
		if isEngineAbort(r) {
			panic(r)
		}
		if _, ok := r.(targetPanic); !ok {
			// host runtime error or stray interpreter panic: an engine defect, never a guest panic
			buf := make([]byte, 4096)
			buf = buf[:runtime.Stack(buf, false)]
			panic(engineError{err: r, stack: fmt.Sprintf("in %s @%s\n%s", fr.fn, fr.posString(fr.curPos()), buf)})
		}
		fr.panicking = true
		fr.panic = r
		fr.i.notePanicSite(fr)
		fr.runDefers()
		fr.block = fr.fn.Recover
		if fr.block == nil {
			// function without named results recovered: zero result
			fr.result = zeroResult(fr.fn)
		}
	}()

	i := fr.i
	for {
		nonPhis := executePhis(fr)
		for _, instr := range nonPhis {
			i.steps++
			if i.steps > i.maxSteps {
				panic(pathAbort{"incomplete", fmt.Sprintf("step budget %d exceeded in %s", i.maxSteps, fr.fn)})
			}
			fr.cur = instr
			i.curFr = fr
			var k continuation
			if fr.tolerant {
				k = visitTolerant(fr, instr)
			} else {
				k = visitInstr(fr, instr)
			}
			if k == kReturn {
				return
			}
			if k == kJump {
				break
			}
		}
	}
}

func zeroResult(fn *ssa.Function) value {
	res := fn.Signature.Results()
	switch res.Len() {
	case 0:
		return nil
	case 1:
		return zero(res.At(0).Type())
	}
	return zero(res)
}

// visitTolerant executes an instruction of a package initialiser; operations outside the
// supported fragment yield poison instead of ending the run.
func visitTolerant(fr *frame, instr ssa.Instruction) (k continuation) {
	defer func() {
		if r := recover(); r != nil {
			var why string
			switch r := r.(type) {
			case unsupportedErr:
				why = r.msg
			case engineError:
				why = fmt.Sprint(r.err)
			case pathAbort:
				panic(r)
			case targetPanic:
				why = "panic in initialiser: " + toString(r.v)
			default:
				why = fmt.Sprint(r)
			}
			fr.i.initPoison = append(fr.i.initPoison, fr.posString(instr.Pos())+": "+why)
			if v, ok := instr.(ssa.Value); ok {
				fr.env[v] = poison{why}
			}
			switch instr.(type) {
			case *ssa.If:
				// cannot decide: leave the initialiser
				fr.block = nil
				k = kReturn
			case *ssa.Return, *ssa.Jump:
				panic(r)
			default:
				k = kNext
			}
		}
	}()
	return visitInstr(fr, instr)
}

func (fr *frame) curPos() token.Pos {
	if fr.cur != nil {
		if p := fr.cur.Pos(); p != token.NoPos {
			return p
		}
	}
	return fr.fn.Pos()
}

func executePhis(fr *frame) []ssa.Instruction {
	firstNonPhi := -1
	for k, instr := range fr.block.Instrs {
		if _, ok := instr.(*ssa.Phi); !ok {
			firstNonPhi = k
			break
		}
	}
	nonPhis := fr.block.Instrs[firstNonPhi:]
	if firstNonPhi > 0 {
		phis := fr.block.Instrs[:firstNonPhi]
		predIndex := slices.Index(fr.block.Preds, fr.prevBlock)
		fr.phitemps = fr.phitemps[:0]
		for _, phi := range phis {
			phi := phi.(*ssa.Phi)
			fr.phitemps = append(fr.phitemps, fr.get(phi.Edges[predIndex]))
		}
		for k, phi := range phis {
			fr.env[phi.(*ssa.Phi)] = fr.phitemps[k]
		}
	}
	return nonPhis
}

func doRecover(caller *frame) value {
	if caller != nil && !caller.panicking &&
		caller.caller != nil && caller.caller.panicking {
		caller.caller.panicking = false
		p := caller.caller.panic
		caller.caller.panic = nil
		switch p := p.(type) {
		case targetPanic:
			return p.v
		default:
			panic(fmt.Sprintf("unexpected panic type %T in target call to recover()", p))
		}
	}
	return iface{}
}
