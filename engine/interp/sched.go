package interp

import (
	"fmt"
	"go/token"
	"go/types"
	"os"
	"runtime"

	"golang.org/x/tools/go/ssa"
)

// Concurrency layer: guest goroutines run one at a time under a cooperative scheduler. A
// goroutine yields at every synchronisation operation (go, channel send/receive/close, select,
// mutex/cond/once/waitgroup/atomic operations, goroutine exit); when more than one goroutine
// is runnable at a yield the next one is an n-way choice explored like any other decision, so
// interleavings are enumerated through the same mechanism as data branches. Channels, mutexes
// and condition variables follow the Go memory model; happens-before edges feed the optional
// vector-clock race detector.

const (
	gRunnable = iota
	gBlocked
	gDone
)

type goroutine struct {
	id       int
	resume   chan struct{}
	exited   chan struct{}
	state    int
	waitDesc string
	kill     bool
	isMain   bool
	curFr    *frame
	depth    int
	vc       []int
}

type chanState struct {
	buf    []value
	closed bool
}

type waiter struct {
	g        *goroutine
	val      value // value to send
	got      value // value received
	ok       bool
	sel      *selectWait
	caseIdx  int
	done     bool
	panicMsg string
	vc       []int
}

type selectWait struct {
	done   bool
	chosen int
	w      *waiter
}

type gochan struct {
	capacity int
	elem     types.Type
	st       chanState
	recvq    []*waiter
	sendq    []*waiter
	vc       []int
	bufVC    [][]int
}

type scheduler struct {
	i        *interpreter
	gs       []*goroutine
	cur      *goroutine
	abort    interface{}
	inAtomic int
	switches int
	preemptions int
}

type goexit struct{}

func (i *interpreter) ensureSched() *scheduler {
	if i.sched == nil {
		s := &scheduler{i: i}
		m := &goroutine{id: 0, resume: make(chan struct{}), exited: make(chan struct{}), isMain: true}
		s.gs = []*goroutine{m}
		s.cur = m
		m.vc = []int{1}
		i.sched = s
	}
	return i.sched
}

var schedTrace = os.Getenv("SYMGO_SCHEDTRACE") != ""

func (s *scheduler) trace(format string, args ...interface{}) {
	if schedTrace {
		fmt.Fprintf(os.Stderr, "[sched %p cur=g%d] "+format+"\n", append([]interface{}{s, s.cur.id}, args...)...)
	}
}

func (s *scheduler) runnable() []*goroutine {
	var out []*goroutine
	for _, g := range s.gs {
		if g.state == gRunnable {
			out = append(out, g)
		}
	}
	return out
}

// switchTo hands the baton to g and parks the current goroutine until it is resumed.
func (s *scheduler) switchTo(g *goroutine) {
	cur := s.cur
	if g == cur {
		return
	}
	i := s.i
	cur.curFr, cur.depth = i.curFr, i.depth
	s.trace("switch to g%d", g.id)
	s.cur = g
	s.switches++
	i.curFr, i.depth = g.curFr, g.depth
	// decide before handing the baton over: afterwards only g may touch shared state
	exiting := cur.state == gDone && !cur.isMain
	g.resume <- struct{}{}
	if exiting {
		return // the host goroutine of a finished guest goroutine just ends
	}
	<-cur.resume
	s.afterResume(cur)
}

func (s *scheduler) afterResume(g *goroutine) {
	i := s.i
	if g.kill {
		panic(goexit{})
	}
	if g.isMain && s.abort != nil {
		a := s.abort
		s.abort = nil
		panic(a)
	}
	i.curFr, i.depth = g.curFr, g.depth
}

// yield is a scheduling point: any runnable goroutine may run next.
func (s *scheduler) yield(i *interpreter, why string) {
	rs := s.runnable()
	if len(rs) <= 1 {
		if len(rs) == 1 && rs[0] != s.cur {
			s.switchTo(rs[0])
		}
		return
	}
	// context bounding: at most MaxPreemptions switches away from a goroutine that could have
	// continued (switches forced by blocking or exit are free)
	curRunnable := s.cur.state == gRunnable
	if curRunnable && s.preemptions >= i.sh.cfg.MaxPreemptions {
		return
	}
	k := i.freeChoice(len(rs), "sched:"+why)
	if curRunnable && rs[k] != s.cur {
		s.preemptions++
	}
	s.switchTo(rs[k])
}

// block parks the current goroutine until another goroutine wakes it.
func (s *scheduler) block(why string) {
	i := s.i
	cur := s.cur
	cur.state = gBlocked
	cur.waitDesc = why
	s.trace("block: %s", why)
	rs := s.runnable()
	if len(rs) == 0 {
		cur.state = gRunnable
		desc := ""
		for _, g := range s.gs {
			if g.state == gBlocked || g == cur {
				d := g.waitDesc
				if g == cur {
					d = why
				}
				desc += fmt.Sprintf(" g%d:%s", g.id, d)
			}
		}
		i.deadlock("all goroutines are blocked:" + desc)
	}
	k := 0
	if len(rs) > 1 {
		k = i.freeChoice(len(rs), "sched:block")
	}
	s.switchTo(rs[k])
}

func (s *scheduler) wake(g *goroutine) {
	if g.state == gBlocked {
		g.state = gRunnable
	}
}

// spawn starts a guest goroutine.
func (i *interpreter) spawn(fr *frame, pos token.Pos, fn value, args []value) {
	s := i.ensureSched()
	g := &goroutine{id: len(s.gs), resume: make(chan struct{}), exited: make(chan struct{})}
	// happens-before: everything before the go statement precedes the new goroutine
	g.vc = make([]int, len(s.gs)+1)
	copy(g.vc, s.cur.vc)
	g.vc[g.id] = 1
	s.tick(s.cur)
	s.gs = append(s.gs, g)
	go func() {
		defer close(g.exited)
		<-g.resume
		defer func() {
			r := recover()
			if _, ok := r.(goexit); ok {
				return
			}
			g.state = gDone
			if r != nil {
				if tp, ok := r.(targetPanic); ok {
					// an uncaught panic in any goroutine brings the process down
					s.abort = pathAbort{"violation", "goroutine-panic"}
					i.pendingGoroutinePanic = "panic in goroutine: " + toString(tp.v)
				} else {
					s.abort = r
				}
				s.resumeMainForAbort()
				return
			}
			s.goroutineExit(g)
		}()
		if g.kill {
			panic(goexit{})
		}
		i.curFr, i.depth = nil, 0
		i.call(nil, pos, fn, args)
	}()
	s.yield(i, "go")
}

func (s *scheduler) resumeMainForAbort() {
	s.trace("resume main for abort %v", s.abort)
	m := s.gs[0]
	s.cur = m
	m.state = gRunnable
	m.resume <- struct{}{}
}

func (s *scheduler) goroutineExit(g *goroutine) {
	i := s.i
	s.trace("exit g%d", g.id)
	rs := s.runnable()
	if len(rs) == 0 {
		// everybody else is blocked: if main is blocked this is a deadlock
		m := s.gs[0]
		if m.state == gBlocked {
			desc := ""
			for _, x := range s.gs {
				if x.state == gBlocked {
					desc += fmt.Sprintf(" g%d:%s", x.id, x.waitDesc)
				}
			}
			s.abortWith(func() { i.deadlock("all goroutines are blocked:" + desc) })
			s.resumeMainForAbort()
		}
		return
	}
	k := 0
	if len(rs) > 1 {
		var err interface{}
		func() {
			defer func() { err = recover() }()
			k = i.freeChoice(len(rs), "sched:exit")
		}()
		if err != nil {
			s.abort = err
			s.resumeMainForAbort()
			return
		}
	}
	next := rs[k]
	s.cur = next
	i.curFr, i.depth = next.curFr, next.depth
	next.resume <- struct{}{}
}

// abortWith runs f (which panics with a path abort) and stores the abort for main.
func (s *scheduler) abortWith(f func()) {
	defer func() {
		if r := recover(); r != nil {
			s.abort = r
		}
	}()
	f()
}

// finishMain is called when the harness entry returns.
func (s *scheduler) finishMain() {}

// killAll terminates the host goroutines of every unfinished guest goroutine (path end).
func (s *scheduler) killAll() {
	s.trace("killAll")
	for _, g := range s.gs[1:] {
		if g.state == gDone {
			continue
		}
		g.kill = true
		g.state = gDone
		select {
		case g.resume <- struct{}{}:
		default:
			// never started or parked elsewhere: deliver asynchronously
			go func(g *goroutine) { g.resume <- struct{}{} }(g)
		}
		<-g.exited
	}
}

// ---- vector clocks ----

func (s *scheduler) tick(g *goroutine) {
	for len(g.vc) <= g.id {
		g.vc = append(g.vc, 0)
	}
	g.vc[g.id]++
}

func vcJoin(dst *[]int, src []int) {
	for len(*dst) < len(src) {
		*dst = append(*dst, 0)
	}
	for k, v := range src {
		if v > (*dst)[k] {
			(*dst)[k] = v
		}
	}
}

func vcCopy(src []int) []int { return append([]int(nil), src...) }

// release: the object's clock absorbs the goroutine's; acquire: the reverse.
func (s *scheduler) release(obj *[]int) {
	vcJoin(obj, s.cur.vc)
	s.tick(s.cur)
}

func (s *scheduler) acquire(obj []int) {
	vcJoin(&s.cur.vc, obj)
}

// ---- channels ----

func (i *interpreter) makeChan(n int, elem types.Type) *gochan {
	return &gochan{capacity: n, elem: elem}
}

func popWaiter(q *[]*waiter) *waiter {
	for len(*q) > 0 {
		w := (*q)[0]
		*q = (*q)[1:]
		if w.done || (w.sel != nil && w.sel.done) {
			continue
		}
		return w
	}
	return nil
}

func hasWaiter(q []*waiter) bool {
	for _, w := range q {
		if !(w.done || (w.sel != nil && w.sel.done)) {
			return true
		}
	}
	return false
}

func (s *scheduler) complete(w *waiter) {
	w.done = true
	if w.sel != nil {
		w.sel.done = true
		w.sel.chosen = w.caseIdx
		w.sel.w = w
	}
	s.wake(w.g)
}

func (i *interpreter) chanSend(c *gochan, v value) {
	s := i.ensureSched()
	s.yield(i, "send")
	i.chanSendNow(c, v)
}

func (i *interpreter) chanSendNow(c *gochan, v value) {
	s := i.ensureSched()
	if c == nil {
		s.block("send on nil channel")
		return
	}
	if c.st.closed {
		i.guestPanic("send on closed channel")
	}
	if w := popWaiter(&c.recvq); w != nil {
		w.got, w.ok = v, true
		// synchronous hand-off: both sides synchronise
		w.vc = vcCopy(s.cur.vc)
		s.tick(s.cur)
		s.complete(w)
		return
	}
	if len(c.st.buf) < c.capacity {
		c.st.buf = append(c.st.buf, v)
		c.bufVC = append(c.bufVC, vcCopy(s.cur.vc))
		s.tick(s.cur)
		return
	}
	w := &waiter{g: s.cur, val: v, vc: vcCopy(s.cur.vc)}
	s.tick(s.cur)
	c.sendq = append(c.sendq, w)
	s.block("chan send")
	if w.panicMsg != "" {
		i.guestPanic(w.panicMsg)
	}
}

func (i *interpreter) chanRecv(c *gochan, commaOk bool, elem types.Type) value {
	s := i.ensureSched()
	s.yield(i, "recv")
	v, ok := i.chanRecvNow(c, elem)
	if commaOk {
		return tuple{v, ok}
	}
	return v
}

func (i *interpreter) chanRecvNow(c *gochan, elem types.Type) (value, bool) {
	s := i.ensureSched()
	if c == nil {
		s.block("receive from nil channel")
		return zero(elem), false
	}
	if len(c.st.buf) > 0 {
		v := c.st.buf[0]
		c.st.buf = c.st.buf[1:]
		if len(c.bufVC) > 0 {
			s.acquire(c.bufVC[0])
			c.bufVC = c.bufVC[1:]
		}
		if w := popWaiter(&c.sendq); w != nil {
			c.st.buf = append(c.st.buf, w.val)
			c.bufVC = append(c.bufVC, w.vc)
			s.complete(w)
		}
		return v, true
	}
	if w := popWaiter(&c.sendq); w != nil {
		s.acquire(w.vc)
		vcJoin(&w.g.vc, s.cur.vc) // unbuffered: the receive also happens before the send completes
		s.tick(s.cur)
		s.complete(w)
		return w.val, true
	}
	if c.st.closed {
		s.acquire(c.vc)
		return zero(elem), false
	}
	w := &waiter{g: s.cur}
	c.recvq = append(c.recvq, w)
	s.block("chan receive")
	if w.vc != nil {
		s.acquire(w.vc)
	}
	if !w.ok {
		return zero(elem), false
	}
	return w.got, true
}

func (i *interpreter) chanClose(c *gochan) {
	if c == nil {
		i.guestPanic("close of nil channel")
	}
	if c.st.closed {
		i.guestPanic("close of closed channel")
	}
	if i.inInit && i.sched == nil {
		c.st.closed = true
		return
	}
	s := i.ensureSched()
	s.yield(i, "close")
	c.st.closed = true
	vcJoin(&c.vc, s.cur.vc)
	s.tick(s.cur)
	for {
		w := popWaiter(&c.recvq)
		if w == nil {
			break
		}
		w.ok = false
		w.vc = vcCopy(c.vc)
		s.complete(w)
	}
	for {
		w := popWaiter(&c.sendq)
		if w == nil {
			break
		}
		w.panicMsg = "send on closed channel"
		s.complete(w)
	}
}

func (i *interpreter) chanLen(c *gochan) int {
	if c == nil {
		return 0
	}
	return len(c.st.buf)
}

func (i *interpreter) selectStmt(fr *frame, instr *ssa.Select) value {
	s := i.ensureSched()
	s.yield(i, "select")
	type scase struct {
		c    *gochan
		send bool
		val  value
		elem types.Type
	}
	cases := make([]scase, len(instr.States))
	for k, st := range instr.States {
		c := fr.get(st.Chan).(*gochan)
		cases[k] = scase{c: c, send: st.Dir == types.SendOnly, elem: st.Chan.Type().Underlying().(*types.Chan).Elem()}
		if st.Send != nil {
			cases[k].val = fr.get(st.Send)
		}
	}
	result := func(chosen int, got value, ok bool) value {
		r := tuple{chosen, ok}
		for k, st := range instr.States {
			if st.Dir == types.RecvOnly {
				if k == chosen && ok {
					r = append(r, got)
				} else {
					r = append(r, zero(cases[k].elem))
				}
			}
		}
		return r
	}
	var ready []int
	for k, c := range cases {
		if c.c == nil {
			continue
		}
		if c.send {
			if c.c.st.closed || hasWaiter(c.c.recvq) || len(c.c.st.buf) < c.c.capacity {
				ready = append(ready, k)
			}
		} else if len(c.c.st.buf) > 0 || hasWaiter(c.c.sendq) || c.c.st.closed {
			ready = append(ready, k)
		}
	}
	if len(ready) > 0 {
		k := ready[0]
		if len(ready) > 1 {
			k = ready[i.freeChoice(len(ready), "select")]
		}
		c := cases[k]
		if c.send {
			i.chanSendNow(c.c, c.val)
			return result(k, nil, false)
		}
		v, ok := i.chanRecvNow(c.c, c.elem)
		return result(k, v, ok)
	}
	if !instr.Blocking {
		return result(-1, nil, false)
	}
	sw := &selectWait{}
	for k, c := range cases {
		if c.c == nil {
			continue
		}
		w := &waiter{g: s.cur, sel: sw, caseIdx: k}
		if c.send {
			w.val = c.val
			w.vc = vcCopy(s.cur.vc)
			c.c.sendq = append(c.c.sendq, w)
		} else {
			c.c.recvq = append(c.c.recvq, w)
		}
	}
	s.tick(s.cur)
	s.block("select")
	w := sw.w
	if w == nil {
		panic(engineError{err: "select resumed without a completed case"})
	}
	if w.panicMsg != "" {
		i.guestPanic(w.panicMsg)
	}
	if w.vc != nil && !cases[w.caseIdx].send {
		s.acquire(w.vc)
	}
	return result(sw.chosen, w.got, w.ok)
}

// ---- sync primitives under the scheduler ----

func (s *scheduler) lock(i *interpreter, p *value, ls *lockState) {
	s.yield(i, "lock")
	for ls.held > 0 {
		ls.waiters = append(ls.waiters, s.cur)
		s.block("mutex lock")
	}
	ls.held = 1
	s.acquire(ls.vc)
}

func (s *scheduler) unlock(i *interpreter, p *value, ls *lockState) {
	ls.held = 0
	s.release(&ls.vc)
	for _, g := range ls.waiters {
		s.wake(g)
	}
	ls.waiters = nil
}

func (s *scheduler) wgChanged(i *interpreter, p *value) {
	t := i.syncT()
	st := t.wgState(p)
	s.release(&st.vc)
	if t.wg[p] == 0 {
		for _, g := range st.waiters {
			s.wake(g)
		}
		st.waiters = nil
	}
}

func (s *scheduler) wgWait(i *interpreter, p *value) {
	t := i.syncT()
	st := t.wgState(p)
	s.yield(i, "wg.Wait")
	for t.wg[p] > 0 {
		st.waiters = append(st.waiters, s.cur)
		s.block("WaitGroup.Wait")
	}
	s.acquire(st.vc)
}

func (s *scheduler) condWait(i *interpreter, fr *frame, p *value, cs *condState) {
	// c.L.Unlock(); wait; c.L.Lock()
	i.callLocker(fr, cs.locker, "Unlock")
	cs.waiters = append(cs.waiters, s.cur)
	s.block("Cond.Wait")
	i.callLocker(fr, cs.locker, "Lock")
}

func (s *scheduler) condSignal(i *interpreter, cs *condState, all bool) {
	s.yield(i, "cond.Signal")
	if len(cs.waiters) == 0 {
		return
	}
	if all {
		for _, g := range cs.waiters {
			s.wake(g)
		}
		cs.waiters = nil
		return
	}
	s.wake(cs.waiters[0])
	cs.waiters = cs.waiters[1:]
}

func (i *interpreter) callLocker(fr *frame, l value, method string) {
	li := l.(iface)
	m := i.sh.findMethod(li.t, method)
	if m == nil {
		panic(unsupported("Locker without " + method))
	}
	i.call(fr, 0, m, []value{li.v})
}

var _ = runtime.Goexit
