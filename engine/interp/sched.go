package interp

import (
	"go/token"
	"go/types"

	"golang.org/x/tools/go/ssa"
)

// Concurrency layer (placeholder until the cooperative scheduler lands): any use of goroutines,
// channels or select marks the path incomplete.

type chanState struct {
	buf    []value
	closed bool
}

type gochan struct {
	capacity int
	elem     types.Type
	st       chanState
}

type raceDetector struct{}

func (r *raceDetector) access(i *interpreter, addr *value, write bool) {}

type goroutine struct{ id int }

type scheduler struct {
	inAtomic int
}

func (s *scheduler) finishMain()                                                  {}
func (s *scheduler) lock(i *interpreter, p *value, ls *lockState)                 {}
func (s *scheduler) unlock(i *interpreter, p *value, ls *lockState)               {}
func (s *scheduler) yield(i *interpreter, why string)                             {}
func (s *scheduler) wgChanged(i *interpreter, p *value)                           {}
func (s *scheduler) wgWait(i *interpreter, p *value)                              {}
func (s *scheduler) condWait(i *interpreter, fr *frame, p *value, cs *condState)  {}
func (s *scheduler) condSignal(i *interpreter, cs *condState, all bool)           {}

func (i *interpreter) spawn(fr *frame, pos token.Pos, fn value, args []value) {
	panic(unsupported("go statement (scheduler not enabled)"))
}

func (i *interpreter) makeChan(n int, elem types.Type) *gochan {
	return &gochan{capacity: n, elem: elem}
}

func (i *interpreter) chanSend(c *gochan, v value) {
	panic(unsupported("channel send (scheduler not enabled)"))
}

func (i *interpreter) chanRecv(c *gochan, commaOk bool, elem types.Type) value {
	panic(unsupported("channel receive (scheduler not enabled)"))
}

func (i *interpreter) chanClose(c *gochan) {
	panic(unsupported("channel close (scheduler not enabled)"))
}

func (i *interpreter) chanLen(c *gochan) int {
	if c == nil {
		return 0
	}
	return len(c.st.buf)
}

func (i *interpreter) selectStmt(fr *frame, instr *ssa.Select) value {
	panic(unsupported("select (scheduler not enabled)"))
}
