package interp

import (
	"fmt"
	"go/token"
	"math"
	"unicode/utf8"

	"symgo/smt"
)

func float64frombits(b uint64) float64 { return math.Float64frombits(b) }

// strOf turns a concrete string into the byte-vector form.
func strOf(s string) symstr {
	b := make([]value, len(s))
	for k := 0; k < len(s); k++ {
		b[k] = s[k]
	}
	return symstr{b}
}

func toSymstr(v value) symstr {
	switch v := v.(type) {
	case string:
		return strOf(v)
	case symstr:
		return v
	}
	panic(unsupported(fmt.Sprintf("toSymstr: %T", v)))
}

// normStr returns a Go string when all bytes are concrete.
func normStr(b []value) value {
	for _, x := range b {
		if _, ok := x.(uint8); !ok {
			return symstr{b}
		}
	}
	bs := make([]byte, len(b))
	for k, x := range b {
		bs[k] = x.(uint8)
	}
	return string(bs)
}

func strLen(v value) int {
	switch v := v.(type) {
	case string:
		return len(v)
	case symstr:
		return len(v.b)
	}
	panic(unsupported(fmt.Sprintf("strLen: %T", v)))
}

func strBytes(v value) []value { return toSymstr(v).b }

func (i *interpreter) strEq(x, y symstr) value {
	if len(x.b) != len(y.b) {
		return false
	}
	var r value = true
	for k := range x.b {
		r = i.vAnd(r, i.equals(nil, x.b[k], y.b[k]))
		if r == false {
			return false
		}
	}
	return r
}

// strLess builds x < y lexicographically (bytewise).
func (i *interpreter) strLess(x, y symstr) value {
	n := len(x.b)
	if len(y.b) < n {
		n = len(y.b)
	}
	// result = fold from the end: at position k: if x[k]<y[k] true; if x[k]>y[k] false; else rest
	var rest value = len(x.b) < len(y.b)
	for k := n - 1; k >= 0; k-- {
		a, b := x.b[k], y.b[k]
		if ca, ok := a.(uint8); ok {
			if cb, ok := b.(uint8); ok {
				if ca < cb {
					rest = true
				} else if ca > cb {
					rest = false
				}
				continue
			}
		}
		ta, tb := i.term(a), i.term(b)
		lt := i.st.BVCmp("bvult", ta, tb)
		eq := i.st.Eq(ta, tb)
		rest = i.symBool(i.st.Or(lt, i.st.And(eq, i.term(rest))))
	}
	return rest
}

func (i *interpreter) strBinop(op token.Token, x, y value) value {
	sx, sy := toSymstr(x), toSymstr(y)
	switch op {
	case token.ADD:
		b := make([]value, 0, len(sx.b)+len(sy.b))
		b = append(b, sx.b...)
		b = append(b, sy.b...)
		return normStr(b)
	case token.EQL:
		return i.strEq(sx, sy)
	case token.NEQ:
		return i.vNot(i.strEq(sx, sy))
	case token.LSS:
		return i.strLess(sx, sy)
	case token.GTR:
		return i.strLess(sy, sx)
	case token.LEQ:
		return i.vNot(i.strLess(sy, sx))
	case token.GEQ:
		return i.vNot(i.strLess(sx, sy))
	}
	panic(unsupported("string binop " + op.String()))
}

// decodeRune decodes one UTF-8 sequence at b[0:], forking on the byte classes when symbolic.
// It follows utf8.DecodeRune: invalid encodings give (RuneError, 1).
func (i *interpreter) decodeRune(b []value) (r value, size int) {
	allc := true
	lim := len(b)
	if lim > 4 {
		lim = 4
	}
	for _, x := range b[:lim] {
		if _, ok := x.(uint8); !ok {
			allc = false
			break
		}
	}
	if allc {
		bs := make([]byte, lim)
		for k := range bs {
			bs[k] = b[k].(uint8)
		}
		rr, n := utf8.DecodeRune(bs)
		return rr, n
	}
	st := i.st
	b0 := i.term(b[0])
	c8 := func(v uint64) *smt.Term { return st.Const(smt.BV(8), v) }
	in := func(t *smt.Term, lo, hi uint64) *smt.Term {
		return st.And(st.BVCmp("bvuge", t, c8(lo)), st.BVCmp("bvule", t, c8(hi)))
	}
	ext := func(t *smt.Term) *smt.Term { return st.ZeroExt(32, t) }
	c32 := func(v uint64) *smt.Term { return st.Const(smt.BV(32), v) }
	if i.decide(st.BVCmp("bvult", b0, c8(0x80))) {
		return i.fromTerm(ext(b0), kindInt32), 1
	}
	// two-byte: C2..DF, cont 80..BF
	if len(b) >= 2 {
		b1 := i.term(b[1])
		if i.decide(st.And(in(b0, 0xC2, 0xDF), in(b1, 0x80, 0xBF))) {
			r := st.BVBin("bvor", st.BVBin("bvshl", st.BVBin("bvand", ext(b0), c32(0x1F)), c32(6)), st.BVBin("bvand", ext(b1), c32(0x3F)))
			return i.fromTerm(r, kindInt32), 2
		}
	}
	if len(b) >= 3 {
		b1, b2 := i.term(b[1]), i.term(b[2])
		// E0: A0..BF ; E1..EC: 80..BF ; ED: 80..9F ; EE..EF: 80..BF
		ok1 := st.Or(st.Or(
			st.And(st.Eq(b0, c8(0xE0)), in(b1, 0xA0, 0xBF)),
			st.And(st.Or(in(b0, 0xE1, 0xEC), in(b0, 0xEE, 0xEF)), in(b1, 0x80, 0xBF))),
			st.And(st.Eq(b0, c8(0xED)), in(b1, 0x80, 0x9F)))
		if i.decide(st.And(ok1, in(b2, 0x80, 0xBF))) {
			r := st.BVBin("bvor", st.BVBin("bvor",
				st.BVBin("bvshl", st.BVBin("bvand", ext(b0), c32(0x0F)), c32(12)),
				st.BVBin("bvshl", st.BVBin("bvand", ext(b1), c32(0x3F)), c32(6))),
				st.BVBin("bvand", ext(b2), c32(0x3F)))
			return i.fromTerm(r, kindInt32), 3
		}
	}
	if len(b) >= 4 {
		b1, b2, b3 := i.term(b[1]), i.term(b[2]), i.term(b[3])
		// F0: 90..BF ; F1..F3: 80..BF ; F4: 80..8F
		ok1 := st.Or(st.Or(
			st.And(st.Eq(b0, c8(0xF0)), in(b1, 0x90, 0xBF)),
			st.And(in(b0, 0xF1, 0xF3), in(b1, 0x80, 0xBF))),
			st.And(st.Eq(b0, c8(0xF4)), in(b1, 0x80, 0x8F)))
		if i.decide(st.And(st.And(ok1, in(b2, 0x80, 0xBF)), in(b3, 0x80, 0xBF))) {
			r := st.BVBin("bvor", st.BVBin("bvor", st.BVBin("bvor",
				st.BVBin("bvshl", st.BVBin("bvand", ext(b0), c32(0x07)), c32(18)),
				st.BVBin("bvshl", st.BVBin("bvand", ext(b1), c32(0x3F)), c32(12))),
				st.BVBin("bvshl", st.BVBin("bvand", ext(b2), c32(0x3F)), c32(6))),
				st.BVBin("bvand", ext(b3), c32(0x3F)))
			return i.fromTerm(r, kindInt32), 4
		}
	}
	return int32(utf8.RuneError), 1
}

// encodeRune returns the UTF-8 bytes of rune r (symbolic: fork on the length class).
func (i *interpreter) encodeRune(r value) []value {
	if c, ok := r.(int32); ok {
		return strOf(string(rune(c))).b
	}
	st := i.st
	t := i.term(r) // BV32
	c32 := func(v uint64) *smt.Term { return st.Const(smt.BV(32), v) }
	lo8 := func(x *smt.Term) value { return i.fromTerm(st.Extract(7, 0, x), kindUint8) }
	or := func(x *smt.Term, v uint64) *smt.Term { return st.BVBin("bvor", x, c32(v)) }
	shr := func(x *smt.Term, n uint64) *smt.Term { return st.BVBin("bvlshr", x, c32(n)) }
	and := func(x *smt.Term, v uint64) *smt.Term { return st.BVBin("bvand", x, c32(v)) }
	if i.decide(st.BVCmp("bvult", t, c32(0x80))) {
		return []value{lo8(t)}
	}
	if i.decide(st.BVCmp("bvult", t, c32(0x800))) {
		return []value{lo8(or(shr(t, 6), 0xC0)), lo8(or(and(t, 0x3F), 0x80))}
	}
	// invalid: surrogates and > MaxRune (including "negative" as unsigned)
	invalid := st.Or(st.BVCmp("bvugt", t, c32(0x10FFFF)), st.And(st.BVCmp("bvuge", t, c32(0xD800)), st.BVCmp("bvule", t, c32(0xDFFF))))
	if i.decide(invalid) {
		return []value{uint8(0xEF), uint8(0xBF), uint8(0xBD)}
	}
	if i.decide(st.BVCmp("bvult", t, c32(0x10000))) {
		return []value{lo8(or(shr(t, 12), 0xE0)), lo8(or(and(shr(t, 6), 0x3F), 0x80)), lo8(or(and(t, 0x3F), 0x80))}
	}
	return []value{lo8(or(shr(t, 18), 0xF0)), lo8(or(and(shr(t, 12), 0x3F), 0x80)), lo8(or(and(shr(t, 6), 0x3F), 0x80)), lo8(or(and(t, 0x3F), 0x80))}
}

// stringIter ranges over a (possibly symbolic) string.
type stringIter struct {
	b   []value
	pos int
}

func (it *stringIter) next(i *interpreter) tuple {
	if it.pos >= len(it.b) {
		return tuple{false, 0, int32(0)}
	}
	r, n := i.decodeRune(it.b[it.pos:])
	p := it.pos
	it.pos += n
	return tuple{true, p, r}
}
