package interp

import (
	"math"
	"bytes"
	"fmt"
	"go/token"
	"go/types"
	"os"

	"golang.org/x/tools/go/ssa"

	"symgo/smt"
)

func isStr(v value) bool {
	switch v.(type) {
	case string, symstr:
		return true
	}
	return false
}

// binop implements arithmetic, logical and comparison operators over concrete and symbolic
// operands. t is the static type of x.
func (i *interpreter) binop(op token.Token, t types.Type, x, y value) value {
	if px, ok := x.(poison); ok {
		panic(unsupported("operand is poison: " + px.why))
	}
	if py, ok := y.(poison); ok {
		panic(unsupported("operand is poison: " + py.why))
	}
	switch op {
	case token.EQL:
		return i.eqnil(t, x, y)
	case token.NEQ:
		return i.vNot(i.eqnil(t, x, y))
	}
	if _, ok := x.(symstr); ok || isSymstr(y) {
		return i.strBinop(op, x, y)
	}
	if !isSym(x) && !isSym(y) {
		switch op {
		case token.QUO, token.REM:
			if isZeroInt(y) {
				i.guestPanic("integer divide by zero")
			}
		case token.SHL, token.SHR:
			if _, ok := asUnsigned(y); !ok {
				i.guestPanic("negative shift amount")
			}
		}
		return binopConcrete(op, t, x, y)
	}
	return i.symBinop(op, t, x, y)
}

func isSymstr(v value) bool { _, ok := v.(symstr); return ok }

func isZeroInt(v value) bool {
	switch v := v.(type) {
	case int:
		return v == 0
	case int8:
		return v == 0
	case int16:
		return v == 0
	case int32:
		return v == 0
	case int64:
		return v == 0
	case uint:
		return v == 0
	case uint8:
		return v == 0
	case uint16:
		return v == 0
	case uint32:
		return v == 0
	case uint64:
		return v == 0
	case uintptr:
		return v == 0
	}
	return false
}

func (i *interpreter) symBinop(op token.Token, t types.Type, x, y value) value {
	st := i.st
	tx, ty := i.term(x), i.term(y)
	k := basicKind(t)
	switch tx.S.K {
	case smt.KBool:
		// only == and != reach here, handled by caller; && and || are control flow in SSA
		panic(unsupported("bool binop " + op.String()))
	case smt.KFP:
		switch op {
		case token.ADD:
			return i.fromTerm(st.FPBin("fp.add", tx, ty), k)
		case token.SUB:
			return i.fromTerm(st.FPBin("fp.sub", tx, ty), k)
		case token.MUL:
			return i.fromTerm(st.FPBin("fp.mul", tx, ty), k)
		case token.QUO:
			return i.fromTerm(st.FPBin("fp.div", tx, ty), k)
		case token.LSS:
			return i.symBool(st.FPCmp("fp.lt", tx, ty))
		case token.LEQ:
			return i.symBool(st.FPCmp("fp.leq", tx, ty))
		case token.GTR:
			return i.symBool(st.FPCmp("fp.gt", tx, ty))
		case token.GEQ:
			return i.symBool(st.FPCmp("fp.geq", tx, ty))
		}
		panic(unsupported("float binop " + op.String()))
	}
	w, signed := kindWidth(k)
	if w == 0 {
		w = tx.S.W
		signed = true
	}
	switch op {
	case token.SHL, token.SHR:
		// the shift count has its own type; bring it to the operand width, saturating
		cnt := ty
		if cnt.S.W > w {
			big := st.BVCmp("bvuge", cnt, st.Const(cnt.S, uint64(w)))
			cnt = st.Ite(big, st.Const(smt.BV(w), uint64(w)), st.Extract(w-1, 0, cnt))
		} else if cnt.S.W < w {
			cnt = st.ZeroExt(w, cnt)
		}
		// negative signed counts panic
		if !isSym(y) {
			if _, ok := asUnsigned(y); !ok {
				i.guestPanic("negative shift amount")
			}
		}
		if op == token.SHL {
			return i.fromTerm(st.BVBin("bvshl", tx, cnt), k)
		}
		if signed {
			return i.fromTerm(st.BVBin("bvashr", tx, cnt), k)
		}
		return i.fromTerm(st.BVBin("bvlshr", tx, cnt), k)
	}
	if tx.S != ty.S {
		panic(unsupported(fmt.Sprintf("binop %s operand sorts differ: %v %v", op, tx.S, ty.S)))
	}
	switch op {
	case token.ADD:
		return i.fromTerm(st.BVBin("bvadd", tx, ty), k)
	case token.SUB:
		return i.fromTerm(st.BVBin("bvsub", tx, ty), k)
	case token.MUL:
		return i.fromTerm(st.BVBin("bvmul", tx, ty), k)
	case token.QUO, token.REM:
		if i.decide(st.Eq(ty, st.Const(ty.S, 0))) {
			i.guestPanic("integer divide by zero")
		}
		var o string
		switch {
		case op == token.QUO && signed:
			o = "bvsdiv"
		case op == token.QUO:
			o = "bvudiv"
		case signed:
			o = "bvsrem"
		default:
			o = "bvurem"
		}
		return i.fromTerm(st.BVBin(o, tx, ty), k)
	case token.AND:
		return i.fromTerm(st.BVBin("bvand", tx, ty), k)
	case token.OR:
		return i.fromTerm(st.BVBin("bvor", tx, ty), k)
	case token.XOR:
		return i.fromTerm(st.BVBin("bvxor", tx, ty), k)
	case token.AND_NOT:
		return i.fromTerm(st.BVBin("bvand", tx, st.BVNot(ty)), k)
	case token.LSS, token.LEQ, token.GTR, token.GEQ:
		var o string
		switch op {
		case token.LSS:
			o = "lt"
		case token.LEQ:
			o = "le"
		case token.GTR:
			o = "gt"
		case token.GEQ:
			o = "ge"
		}
		if signed {
			o = "bvs" + o
		} else {
			o = "bvu" + o
		}
		return i.symBool(st.BVCmp(o, tx, ty))
	}
	panic(unsupported("symbolic binop " + op.String()))
}

func (fr *frame) unop(instr *ssa.UnOp, x value) value {
	i := fr.i
	if p, ok := x.(poison); ok {
		panic(unsupported("operand is poison: " + p.why))
	}
	switch instr.Op {
	case token.ARROW:
		return i.chanRecv(x.(*gochan), instr.CommaOk, instr.X.Type().Underlying().(*types.Chan).Elem())
	case token.MUL:
		px := x.(*value)
		if px == nil {
			i.guestPanic("invalid memory address or nil pointer dereference")
		}
		if i.race != nil {
			i.race.access(i, px, false)
		}
		return load(deref(instr.X.Type()), px)
	case token.NOT:
		return i.vNot(x)
	case token.SUB:
		if s, ok := x.(*sym); ok {
			k := basicKind(instr.X.Type())
			if s.t.S.K == smt.KFP {
				return i.fromTerm(i.st.FPNeg(s.t), k)
			}
			return i.fromTerm(i.st.BVNeg(s.t), k)
		}
		switch x := x.(type) {
		case int:
			return -x
		case int8:
			return -x
		case int16:
			return -x
		case int32:
			return -x
		case int64:
			return -x
		case uint:
			return -x
		case uint8:
			return -x
		case uint16:
			return -x
		case uint32:
			return -x
		case uint64:
			return -x
		case uintptr:
			return -x
		case float32:
			return -x
		case float64:
			return -x
		case complex64:
			return -x
		case complex128:
			return -x
		}
	case token.XOR:
		if s, ok := x.(*sym); ok {
			return i.fromTerm(i.st.BVNot(s.t), basicKind(instr.X.Type()))
		}
		switch x := x.(type) {
		case int:
			return ^x
		case int8:
			return ^x
		case int16:
			return ^x
		case int32:
			return ^x
		case int64:
			return ^x
		case uint:
			return ^x
		case uint8:
			return ^x
		case uint16:
			return ^x
		case uint32:
			return ^x
		case uint64:
			return ^x
		case uintptr:
			return ^x
		}
	}
	panic(fmt.Sprintf("invalid unary op %s %T", instr.Op, x))
}

// conv implements ssa.Convert.
func (i *interpreter) conv(t_dst, t_src types.Type, x value) value {
	if p, ok := x.(poison); ok {
		panic(unsupported("conversion of poison: " + p.why))
	}
	ut_src := t_src.Underlying()
	ut_dst := t_dst.Underlying()
	st := i.st

	switch ut_src := ut_src.(type) {
	case *types.Pointer:
		if b, ok := ut_dst.(*types.Basic); ok && b.Kind() == types.UnsafePointer {
			return unsafePtr{p: x.(*value), t: ut_src.Elem()}
		}
	case *types.Slice:
		// []byte or []rune -> string
		xs := x.([]value)
		switch ut_src.Elem().Underlying().(*types.Basic).Kind() {
		case types.Byte:
			b := make([]value, len(xs))
			copy(b, xs)
			return normStr(b)
		case types.Rune:
			var b []value
			for _, r := range xs {
				b = append(b, i.encodeRune(r)...)
			}
			return normStr(b)
		}
	case *types.Basic:
		if ut_src.Kind() == types.UnsafePointer {
			up, ok := x.(unsafePtr)
			if !ok || up.p == nil {
				return zero(t_dst)
			}
			if dp, ok := ut_dst.(*types.Pointer); ok {
				if types.Identical(dp.Elem(), up.t) || types.Identical(dp.Elem().Underlying(), up.t.Underlying()) {
					return up.p
				}
				// float64 <-> uint64 reinterpretation (math.Float64bits written by hand): a
				// converted copy - reads are exact, writes through the new pointer do not
				// reach the original
				if sb, ok1 := up.t.Underlying().(*types.Basic); ok1 {
					if db, ok2 := dp.Elem().Underlying().(*types.Basic); ok2 {
						cur := *up.p
						var cell value
						done := false
						switch {
						case sb.Kind() == types.Float64 && db.Kind() == types.Uint64:
							switch c := cur.(type) {
							case float64:
								cell, done = math.Float64bits(c), true
							case *sym:
								cell, done = i.fromTerm(i.floatBits(c.t), types.Uint64), true
							}
						case sb.Kind() == types.Uint64 && db.Kind() == types.Float64:
							switch c := cur.(type) {
							case uint64:
								cell, done = math.Float64frombits(c), true
							case *sym:
								cell, done = i.fromTerm(i.st.FPFromBits(c.t), types.Float64), true
							}
						}
						if done {
							return &cell
						}
					}
				}
				panic(unsupported(fmt.Sprintf("unsafe.Pointer cast from *%v to *%v", up.t, dp.Elem())))
			}
			if b, ok := ut_dst.(*types.Basic); ok && b.Kind() == types.UnsafePointer {
				return up
			}
			panic(unsupported("unsafe.Pointer conversion to " + t_dst.String()))
		}
		// string -> []byte, []rune, string
		if isStr(x) {
			switch ut_dst := ut_dst.(type) {
			case *types.Slice:
				bs := strBytes(x)
				switch ut_dst.Elem().Underlying().(*types.Basic).Kind() {
				case types.Rune:
					var res []value
					for p := 0; p < len(bs); {
						r, n := i.decodeRune(bs[p:])
						res = append(res, r)
						p += n
					}
					return i.sliceWithCap(res)
				case types.Byte:
					res := make([]value, len(bs))
					copy(res, bs)
					return i.sliceWithCap(res)
				}
			case *types.Basic:
				if ut_dst.Kind() == types.String {
					return x
				}
			}
			break
		}
		// integer -> string
		if ut_src.Info()&types.IsInteger != 0 {
			if d, ok := ut_dst.(*types.Basic); ok && d.Kind() == types.String {
				var r value
				if s, ok := x.(*sym); ok {
					w, signed := kindWidth(ut_src.Kind())
					_ = w
					t := s.t
					if t.S.W > 32 {
						// out of int32 range ⇒ RuneError
						inr := st.Eq(st.Resize(st.Extract(31, 0, t), t.S.W, true), t)
						_ = signed
						t = st.Ite(inr, st.Extract(31, 0, t), st.Const(smt.BV(32), 0xFFFD))
					} else if t.S.W < 32 {
						t = st.Resize(t, 32, signed)
					}
					r = i.fromTerm(t, kindInt32)
				} else {
					v := asInt64(x)
					if v < 0 || v > 0x10FFFF {
						v = 0xFFFD
					}
					r = int32(v)
				}
				return normStr(i.encodeRune(r))
			}
		}
		if s, ok := x.(*sym); ok {
			return i.symConv(ut_dst, ut_src, s)
		}
	}
	return convConcrete(t_dst, t_src, x)
}

func (i *interpreter) symConv(ut_dst types.Type, ut_src *types.Basic, s *sym) value {
	st := i.st
	db, ok := ut_dst.(*types.Basic)
	if !ok {
		panic(unsupported("symbolic conversion to " + ut_dst.String()))
	}
	dk := db.Kind()
	t := s.t
	switch t.S.K {
	case smt.KBool:
		return s
	case smt.KFP:
		if dk == types.Float64 {
			return s
		}
		if w, signed := kindWidth(dk); w != 0 {
			return i.fromTerm(st.FPToInt(t, w, signed), dk)
		}
		panic(unsupported("symbolic float conversion to " + db.String()))
	}
	_, srcSigned := kindWidth(ut_src.Kind())
	if dk == types.Float64 {
		return i.fromTerm(st.IntToFP(t, srcSigned), dk)
	}
	if w, _ := kindWidth(dk); w != 0 {
		return i.fromTerm(st.Resize(t, w, srcSigned), dk)
	}
	panic(unsupported("symbolic int conversion to " + db.String()))
}

// unsafePtr is an unsafe.Pointer that remembers the typed cell it came from.
type unsafePtr struct {
	p *value
	t types.Type
}

func (i *interpreter) slice(x, lo, hi, max value) value {
	if p, ok := x.(poison); ok {
		panic(unsupported("slice of poison: " + p.why))
	}
	var Len, Cap int
	switch x := x.(type) {
	case string:
		Len = len(x)
		Cap = Len
	case symstr:
		Len = len(x.b)
		Cap = Len
	case []value:
		Len = len(x)
		Cap = cap(x)
	case *value:
		if x == nil {
			i.guestPanic("invalid memory address or nil pointer dereference")
		}
		a := (*x).(array)
		Len = len(a)
		Cap = cap(a)
	}
	l, h, m := 0, Len, Cap
	if max != nil {
		m = i.bound(max, Cap)
	}
	if hi != nil {
		h = i.bound(hi, m)
	}
	if lo != nil {
		l = i.bound(lo, h)
	}
	if l > h || h > m {
		i.guestPanic(fmt.Sprintf("slice bounds out of range [%d:%d:%d]", l, h, m))
	}
	switch x := x.(type) {
	case string:
		return x[l:h]
	case symstr:
		return normStr(x.b[l:h])
	case []value:
		return x[l:h:m]
	case *value:
		a := (*x).(array)
		return []value(a)[l:h:m]
	}
	panic(fmt.Sprintf("slice: unexpected X type: %T", x))
}

// ---- maps ----

func (i *interpreter) mapFind(m *gomap, key value) *mapEntry {
	if m == nil {
		return nil
	}
	for _, e := range m.entries {
		eq := i.equals(m.keyType, key, e.key)
		switch eq := eq.(type) {
		case bool:
			if eq {
				return e
			}
		case *sym:
			if i.decide(eq.t) {
				return e
			}
		}
	}
	return nil
}

func (i *interpreter) mapLog(m *gomap) {
	if i.journalOn {
		i.journal = append(i.journal, undoRec{m: m, ents: m.entries})
	}
}

func (i *interpreter) mapInsert(m *gomap, key, val value) {
	if e := i.mapFind(m, key); e != nil {
		// entries are immutable once journalled: replace the entry
		i.mapLog(m)
		ne := make([]*mapEntry, len(m.entries))
		copy(ne, m.entries)
		for k := range ne {
			if ne[k] == e {
				ne[k] = &mapEntry{key: e.key, val: val, id: e.id}
			}
		}
		m.entries = ne
		return
	}
	i.mapLog(m)
	ne := make([]*mapEntry, len(m.entries), len(m.entries)+1)
	copy(ne, m.entries)
	i.mapIDs++
	m.entries = append(ne, &mapEntry{key: key, val: val, id: i.mapIDs})
}

func (i *interpreter) mapDelete(m *gomap, key value) {
	e := i.mapFind(m, key)
	if e == nil {
		return
	}
	i.mapLog(m)
	ne := make([]*mapEntry, 0, len(m.entries))
	for _, x := range m.entries {
		if x != e {
			ne = append(ne, x)
		}
	}
	m.entries = ne
}

func (i *interpreter) lookup(instr *ssa.Lookup, x, idx value) value {
	switch x := x.(type) {
	case *gomap:
		var v value
		e := i.mapFind(x, idx)
		ok := e != nil
		if ok {
			v = copyVal(instr.X.Type().Underlying().(*types.Map).Elem(), e.val)
		} else {
			v = zero(instr.X.Type().Underlying().(*types.Map).Elem())
		}
		if instr.CommaOk {
			v = tuple{v, ok}
		}
		return v
	case string:
		return x[i.index(idx, len(x), "string")]
	case symstr:
		return x.b[i.index(idx, len(x.b), "string")]
	case poison:
		panic(unsupported("lookup in poison: " + x.why))
	}
	panic(fmt.Sprintf("unexpected x type in Lookup: %T", x))
}

type mapIter struct {
	m    *gomap
	keys []*mapEntry
	pos  int
}

func (it *mapIter) next(i *interpreter) tuple {
	for it.pos < len(it.keys) {
		e := it.keys[it.pos]
		it.pos++
		// entry may have been deleted or replaced since the range started
		for _, cur := range it.m.entries {
			if cur == e || cur.id == e.id {
				return tuple{true, cur.key, cur.val}
			}
		}
	}
	return tuple{false, nil, nil}
}

func (i *interpreter) rangeIter(x value, t types.Type) iter {
	switch x := x.(type) {
	case *gomap:
		it := &mapIter{m: x}
		if x != nil {
			it.keys = append(it.keys, x.entries...)
			if i.orderFree && i.orderBudget > 0 && len(it.keys) > 1 {
				it.keys = i.permute(it.keys)
			}
		}
		return it
	case string:
		return &stringIter{b: strOf(x).b}
	case symstr:
		return &stringIter{b: x.b}
	case poison:
		panic(unsupported("range over poison: " + x.why))
	}
	panic(fmt.Sprintf("cannot range over %T", x))
}

// permute picks another enumeration order by choice: any permutation of up to 3 entries, any
// single transposition of more (the identity costs nothing, anything else one unit of the
// deviation budget).
func (i *interpreter) permute(es []*mapEntry) []*mapEntry {
	n := len(es)
	if n <= 3 {
		rest := append([]*mapEntry(nil), es...)
		var out []*mapEntry
		deviated := false
		for len(rest) > 1 {
			k := i.freeChoice(len(rest), "order")
			if k != 0 {
				deviated = true
			}
			out = append(out, rest[k])
			rest = append(rest[:k], rest[k+1:]...)
		}
		if deviated {
			i.orderBudget--
		}
		return append(out, rest...)
	}
	k := i.freeChoice(1+n*(n-1)/2, "order")
	if k == 0 {
		return es
	}
	i.orderBudget--
	out := append([]*mapEntry(nil), es...)
	k--
	for a := 0; a < n; a++ {
		if k < n-1-a {
			b := a + 1 + k
			out[a], out[b] = out[b], out[a]
			break
		}
		k -= n - 1 - a
	}
	return out
}

// ---- type assertions ----

func (i *interpreter) typeAssert(instr *ssa.TypeAssert, itf iface) value {
	var v value
	err := ""
	if itf.t == nil {
		err = fmt.Sprintf("interface conversion: interface is nil, not %s", instr.AssertedType)
	} else if idst, ok := instr.AssertedType.Underlying().(*types.Interface); ok {
		v = itf
		if meth, _ := types.MissingMethod(itf.t, idst, true); meth != nil {
			err = fmt.Sprintf("interface conversion: %v is not %v: missing method %s", itf.t, instr.AssertedType, meth.Name())
		}
	} else if types.Identical(itf.t, instr.AssertedType) {
		v = itf.v
	} else {
		err = fmt.Sprintf("interface conversion: interface is %s, not %s", itf.t, instr.AssertedType)
	}
	if err != "" {
		if !instr.CommaOk {
			i.guestPanic(err)
		}
		return tuple{zero(instr.AssertedType), false}
	}
	if instr.CommaOk {
		return tuple{v, true}
	}
	return v
}

// ---- builtins ----

func (i *interpreter) callBuiltin(caller *frame, callpos token.Pos, fn *ssa.Builtin, args []value) value {
	for _, a := range args {
		if p, ok := a.(poison); ok {
			panic(unsupported("builtin " + fn.Name() + " on poison: " + p.why))
		}
	}
	switch fn.Name() {
	case "append":
		if len(args) == 1 {
			return args[0]
		}
		dst := args[0].([]value)
		var src []value
		if isStr(args[1]) {
			src = strBytes(args[1])
		} else {
			src = args[1].([]value)
		}
		var tElt types.Type
		if sl, ok := fn.Type().(*types.Signature).Params().At(0).Type().Underlying().(*types.Slice); ok {
			tElt = sl.Elem()
		}
		return i.appendSlice(dst, src, tElt)

	case "copy":
		dst := args[0].([]value)
		var src []value
		if isStr(args[1]) {
			src = strBytes(args[1])
		} else {
			src = args[1].([]value)
		}
		n := len(dst)
		if len(src) < n {
			n = len(src)
		}
		var tElt types.Type
		if sl, ok := fn.Type().(*types.Signature).Params().At(0).Type().Underlying().(*types.Slice); ok {
			tElt = sl.Elem()
		}
		// memmove semantics for overlapping ranges
		tmp := make([]value, n)
		for k := 0; k < n; k++ {
			tmp[k] = copyValMaybe(tElt, src[k])
		}
		for k := 0; k < n; k++ {
			i.setCellChecked(&dst[k], tmp[k])
		}
		return n

	case "close":
		i.chanClose(args[0].(*gochan))
		return nil

	case "delete":
		i.mapDelete(args[0].(*gomap), args[1])
		return nil

	case "clear":
		switch x := args[0].(type) {
		case *gomap:
			if x != nil {
				i.mapLog(x)
				x.entries = nil
			}
		case []value:
			var tElt types.Type
			if sl, ok := fn.Type().(*types.Signature).Params().At(0).Type().Underlying().(*types.Slice); ok {
				tElt = sl.Elem()
			}
			for k := range x {
				i.setCellChecked(&x[k], zero(tElt))
			}
		}
		return nil

	case "print", "println":
		ln := fn.Name() == "println"
		var buf bytes.Buffer
		for k, arg := range args {
			if k > 0 && ln {
				buf.WriteRune(' ')
			}
			buf.WriteString(toString(arg))
		}
		if ln {
			buf.WriteRune('\n')
		}
		if i.sh.cfg.Verbose {
			os.Stderr.Write(buf.Bytes())
		}
		return nil

	case "len":
		switch x := args[0].(type) {
		case string:
			return len(x)
		case symstr:
			return len(x.b)
		case array:
			return len(x)
		case *value:
			return len((*x).(array))
		case []value:
			return len(x)
		case *gomap:
			if x == nil {
				return 0
			}
			return len(x.entries)
		case *gochan:
			return i.chanLen(x)
		default:
			panic(fmt.Sprintf("len: illegal operand: %T", x))
		}

	case "cap":
		switch x := args[0].(type) {
		case array:
			return cap(x)
		case *value:
			return cap((*x).(array))
		case []value:
			return cap(x)
		case *gochan:
			if x == nil {
				return 0
			}
			return x.capacity
		default:
			panic(fmt.Sprintf("cap: illegal operand: %T", x))
		}

	case "min", "max":
		x := args[0]
		for _, y := range args[1:] {
			if isSym(x) || isSym(y) || isStr(x) {
				var lt value
				if fn.Name() == "min" {
					lt = i.binop(token.LSS, fn.Type().(*types.Signature).Params().At(0).Type(), y, x)
				} else {
					lt = i.binop(token.GTR, fn.Type().(*types.Signature).Params().At(0).Type(), y, x)
				}
				if (&frame{i: i}).condBool(lt) {
					x = y
				}
			} else if fn.Name() == "min" {
				x = min(x, y)
			} else {
				x = max(x, y)
			}
		}
		return x

	case "panic":
		panic(targetPanic{args[0]})

	case "recover":
		return doRecover(caller)

	case "ssa:wrapnilchk":
		recv := args[0]
		if recv.(*value) == nil {
			i.guestPanic(fmt.Sprintf("value method (%s).%s called using nil *%s pointer", toString(args[1]), toString(args[2]), toString(args[1])))
		}
		return recv

	case "ssa:deferstack":
		return &caller.defers
	}
	panic(unsupported("built-in: " + fn.Name()))
}

func copyValMaybe(t types.Type, v value) value {
	if t == nil {
		return v
	}
	return copyVal(t, v)
}

func (i *interpreter) setCellChecked(addr *value, v value) {
	if i.race != nil {
		i.race.access(i, addr, true)
	}
	i.setCell(addr, v)
}

// appendSlice implements append with the configured capacity model.
func (i *interpreter) appendSlice(dst, src []value, tElt types.Type) value {
	if len(src) == 0 {
		return dst
	}
	need := len(dst) + len(src)
	if need <= cap(dst) {
		// in place: writes into the shared backing array, exactly like the runtime
		i.inPlaceAppends++
		out := dst[:need]
		for k, v := range src {
			i.setCellChecked(&out[len(dst)+k], copyValMaybe(tElt, v))
		}
		return out
	}
	newcap := i.growCap(cap(dst), need, tElt)
	out := make([]value, need, newcap)
	for k, v := range dst {
		out[k] = copyValMaybe(tElt, v)
	}
	for k, v := range src {
		out[len(dst)+k] = copyValMaybe(tElt, v)
	}
	for k := need; k < newcap; k++ {
		full := out[:newcap]
		if tElt != nil {
			full[k] = zero(tElt)
		}
	}
	return out
}

// sliceWithCap gives a freshly converted slice ([]rune(s), []byte(s)) its capacity according to
// the capacity model.
func (i *interpreter) sliceWithCap(s []value) []value {
	if len(s) == 0 {
		return s
	}
	var tElt types.Type
	switch s[0].(type) {
	case uint8:
		tElt = types.Typ[types.Uint8]
	default:
		tElt = types.Typ[types.Int32]
	}
	if sy, ok := s[0].(*sym); ok && sy.t.S.W == 8 {
		tElt = types.Typ[types.Uint8]
	}
	c := i.growCap(0, len(s), tElt)
	if c == len(s) {
		return s[:len(s):len(s)]
	}
	out := make([]value, len(s), c)
	copy(out, s)
	full := out[:c]
	for k := len(s); k < c; k++ {
		full[k] = zero(tElt)
	}
	return out
}
