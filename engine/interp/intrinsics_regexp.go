package interp

import (
	"regexp"
)

// regexp on concrete inputs: the compiled expression is an opaque host object and every
// matching method runs natively. A symbolic subject marks the path incomplete.

func concStr(v value, what string) string {
	switch v := v.(type) {
	case string:
		return v
	case symstr:
		if s, ok := normStr(v.b).(string); ok {
			return s
		}
	}
	panic(unsupported(what + " on a symbolic string"))
}

// lexStr is concStr for the regexp intrinsics: a registered shadow twin stands in for a partly
// symbolic subject.
func (i *interpreter) lexStr(v value, what string) string {
	if s, ok := v.(symstr); ok {
		if _, conc := normStr(s.b).(string); !conc {
			if twin, has := i.shadowOf(s.b); has {
				return twin
			}
		}
	}
	return concStr(v, what)
}

func concBytes(v value, what string) []byte {
	x := v.([]value)
	bs := make([]byte, len(x))
	for k, b := range x {
		c, ok := b.(uint8)
		if !ok {
			panic(unsupported(what + " on symbolic bytes"))
		}
		bs[k] = c
	}
	return bs
}

func intsVal(xs []int) value {
	if xs == nil {
		return []value(nil)
	}
	out := make([]value, len(xs))
	for k, x := range xs {
		out[k] = x
	}
	return out
}

func stringsVal(xs []string) value {
	if xs == nil {
		return []value(nil)
	}
	out := make([]value, len(xs))
	for k, x := range xs {
		out[k] = x
	}
	return out
}

func bytesVal(xs []byte) value {
	if xs == nil {
		return []value(nil)
	}
	out := make([]value, len(xs))
	for k, x := range xs {
		out[k] = x
	}
	return out
}

func hostRe(v value) *regexp.Regexp {
	p := v.(*value)
	return (*p).(hostRegexp).re
}

func init() {
	reg("regexp.QuoteMeta", func(fr *frame, a []value) value {
		return regexp.QuoteMeta(concStr(a[0], "regexp.QuoteMeta"))
	})
	reg("regexp.Compile", func(fr *frame, a []value) value {
		re, err := regexp.Compile(concStr(a[0], "regexp.Compile"))
		if err != nil {
			var nilp *value
			return tuple{nilp, fr.i.newError(err.Error())}
		}
		var cell value = hostRegexp{re}
		return tuple{&cell, iface{}}
	})
	reg("(*regexp.Regexp).String", func(fr *frame, a []value) value { return hostRe(a[0]).String() })
	reg("(*regexp.Regexp).NumSubexp", func(fr *frame, a []value) value { return hostRe(a[0]).NumSubexp() })
	reg("(*regexp.Regexp).SubexpNames", func(fr *frame, a []value) value { return stringsVal(hostRe(a[0]).SubexpNames()) })
	reg("(*regexp.Regexp).FindStringSubmatchIndex", func(fr *frame, a []value) value {
		return intsVal(hostRe(a[0]).FindStringSubmatchIndex(fr.i.lexStr(a[1], "regexp match")))
	})
	reg("(*regexp.Regexp).FindStringIndex", func(fr *frame, a []value) value {
		return intsVal(hostRe(a[0]).FindStringIndex(fr.i.lexStr(a[1], "regexp match")))
	})
	reg("(*regexp.Regexp).FindStringSubmatch", func(fr *frame, a []value) value {
		return stringsVal(hostRe(a[0]).FindStringSubmatch(fr.i.lexStr(a[1], "regexp match")))
	})
	reg("(*regexp.Regexp).FindString", func(fr *frame, a []value) value {
		return hostRe(a[0]).FindString(fr.i.lexStr(a[1], "regexp match"))
	})
	reg("(*regexp.Regexp).FindAllString", func(fr *frame, a []value) value {
		return stringsVal(hostRe(a[0]).FindAllString(fr.i.lexStr(a[1], "regexp match"), int(asInt64(a[2]))))
	})
	reg("(*regexp.Regexp).FindAllStringSubmatch", func(fr *frame, a []value) value {
		ms := hostRe(a[0]).FindAllStringSubmatch(fr.i.lexStr(a[1], "regexp match"), int(asInt64(a[2])))
		if ms == nil {
			return []value(nil)
		}
		out := make([]value, len(ms))
		for k, m := range ms {
			out[k] = stringsVal(m)
		}
		return out
	})
	reg("(*regexp.Regexp).FindAllStringSubmatchIndex", func(fr *frame, a []value) value {
		ms := hostRe(a[0]).FindAllStringSubmatchIndex(fr.i.lexStr(a[1], "regexp match"), int(asInt64(a[2])))
		if ms == nil {
			return []value(nil)
		}
		out := make([]value, len(ms))
		for k, m := range ms {
			out[k] = intsVal(m)
		}
		return out
	})
	reg("(*regexp.Regexp).FindAllStringIndex", func(fr *frame, a []value) value {
		ms := hostRe(a[0]).FindAllStringIndex(fr.i.lexStr(a[1], "regexp match"), int(asInt64(a[2])))
		if ms == nil {
			return []value(nil)
		}
		out := make([]value, len(ms))
		for k, m := range ms {
			out[k] = intsVal(m)
		}
		return out
	})
	reg("(*regexp.Regexp).ReplaceAllString", func(fr *frame, a []value) value {
		return hostRe(a[0]).ReplaceAllString(concStr(a[1], "regexp replace"), concStr(a[2], "regexp replace"))
	})
	reg("(*regexp.Regexp).ReplaceAllLiteralString", func(fr *frame, a []value) value {
		return hostRe(a[0]).ReplaceAllLiteralString(concStr(a[1], "regexp replace"), concStr(a[2], "regexp replace"))
	})
	reg("(*regexp.Regexp).Find", func(fr *frame, a []value) value {
		return bytesVal(hostRe(a[0]).Find(concBytes(a[1], "regexp match")))
	})
	reg("(*regexp.Regexp).FindIndex", func(fr *frame, a []value) value {
		return intsVal(hostRe(a[0]).FindIndex(concBytes(a[1], "regexp match")))
	})
	reg("(*regexp.Regexp).FindSubmatchIndex", func(fr *frame, a []value) value {
		return intsVal(hostRe(a[0]).FindSubmatchIndex(concBytes(a[1], "regexp match")))
	})
	reg("(*regexp.Regexp).Split", func(fr *frame, a []value) value {
		return stringsVal(hostRe(a[0]).Split(concStr(a[1], "regexp split"), int(asInt64(a[2]))))
	})
}

func init() {
	// math/rand as a source of unique tokens (wbnf cut points): a per-path counter.
	reg("math/rand.Int31", func(fr *frame, a []value) value {
		fr.i.randCtr++
		return fr.i.randCtr
	})
}
