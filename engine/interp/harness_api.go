package interp

import (
	"fmt"
	"go/types"
	"os"
	"strings"

	"golang.org/x/tools/go/ssa"

	"symgo/smt"
)

type externalFn func(fr *frame, args []value) value

// harnessAPI are the body-less verif* functions declared by harness overlay files.
var harnessAPI = map[string]externalFn{}

func init() {
	for k, v := range map[string]externalFn{
		"verifNondetInt":     func(fr *frame, a []value) value { return fr.i.nondet("int", smt.BV(64), types.Int) },
		"verifNondetInt64":   func(fr *frame, a []value) value { return fr.i.nondet("int64", smt.BV(64), types.Int64) },
		"verifNondetRune":    func(fr *frame, a []value) value { return fr.i.nondet("int32", smt.BV(32), types.Int32) },
		"verifNondetByte":    func(fr *frame, a []value) value { return fr.i.nondet("uint8", smt.BV(8), types.Uint8) },
		"verifNondetBool":    func(fr *frame, a []value) value { return fr.i.nondet("bool", smt.BoolSort, types.Bool) },
		"verifNondetFloat64": func(fr *frame, a []value) value { return fr.i.nondet("float64", smt.FPSort, types.Float64) },
		"verifNondetIntIn":   apiNondetIntIn,
		"verifChoice":        apiChoice,
		"verifAssume":        apiAssume,
		"verifAssert":        apiAssert,
		"verifCover":         apiCover,
		"verifTry":           apiTry,
		"verifOrderFreeN": func(fr *frame, a []value) value {
			fr.i.orderFree = true
			fr.i.orderBudget = int(asInt64(a[0]))
			fr.i.orderBudget0 = fr.i.orderBudget
			return nil
		},
		"verifThorough": func(fr *frame, a []value) value {
			// recorded in the replay vector so that the native run takes the same bounds
			k := 0
			if fr.i.sh.cfg.Thorough {
				k = 1
			}
			fr.i.nondets = append(fr.i.nondets, NondetRec{Kind: "choice", Val: uint64(k)})
			return k == 1
		},
		"verifShadow":        apiShadow,
		"verifOutput":        func(fr *frame, a []value) value { return nil },
		"verifOrderInsertion": func(fr *frame, a []value) value { fr.i.orderFree = false; return nil },
		"verifOrderDeviations": func(fr *frame, a []value) value {
			if !fr.i.orderFree {
				return 0
			}
			return fr.i.orderBudget0 - fr.i.orderBudget
		},
		"verifMemo":          apiMemo,
		"verifAnd":           func(fr *frame, a []value) value { return fr.i.vAnd(a[0], a[1]) },
		"verifOr":            func(fr *frame, a []value) value { return fr.i.vOr(a[0], a[1]) },
		"verifNot":           func(fr *frame, a []value) value { return fr.i.vNot(a[0]) },
		"verifIte":           apiIte,
		"verifIteF":          apiIte,
		"verifIteB":          apiIte,
		"verifUF1":           apiUF,
		"verifUF2":           apiUF,
		"verifKnown":         apiKnown,
		"verifOrderFree":     func(fr *frame, a []value) value {
			fr.i.orderFree = true
			fr.i.orderBudget = fr.i.sh.cfg.MaxOrderDeviations
			fr.i.orderBudget0 = fr.i.orderBudget
			return nil
		},
		"verifCapNondet":     func(fr *frame, a []value) value { fr.i.capNondet = true; return nil },
		"verifPrint":         apiPrint,
		"verifSymbolic":      func(fr *frame, a []value) value { return true },
		"verifInPlaceAppends": func(fr *frame, a []value) value { return fr.i.inPlaceAppends },
		"verifConcretize":    apiConcretize,
		"verifIsNaN":         apiIsNaN,
		"verifRaceDetect":    func(fr *frame, a []value) value { fr.i.race = newRaceDetector(); return nil },
		"verifGo":            func(fr *frame, a []value) value { fr.i.spawn(fr, fr.callpos, a[0], nil); return nil },
		"verifYield":         func(fr *frame, a []value) value { fr.i.ensureSched().yield(fr.i, "harness"); return nil },
	} {
		harnessAPI[k] = v
	}
}

func (i *interpreter) nondet(kind string, s smt.Sort, k types.BasicKind) value {
	t := i.st.Var(s, kind)
	i.nondets = append(i.nondets, NondetRec{Kind: kind, Term: t})
	return &sym{t}
}

func apiNondetIntIn(fr *frame, a []value) value {
	i := fr.i
	lo, hi := asInt64(a[0]), asInt64(a[1])
	if lo == hi {
		// still consumes a slot in the replay vector
		i.nondets = append(i.nondets, NondetRec{Kind: "int", Term: i.st.Const(smt.BV(64), uint64(lo))})
		return int(lo)
	}
	t := i.st.Var(smt.BV(64), "int")
	i.nondets = append(i.nondets, NondetRec{Kind: "int", Term: t})
	i.st.SetRange(t, lo, hi)
	c := i.st.And(i.st.BVCmp("bvsge", t, i.st.Const(smt.BV(64), uint64(lo))), i.st.BVCmp("bvsle", t, i.st.Const(smt.BV(64), uint64(hi))))
	i.solver.Assert(i.st, c)
	return &sym{t}
}

func apiChoice(fr *frame, a []value) value {
	i := fr.i
	n := int(asInt64(a[0]))
	k := i.freeChoice(n, "choice")
	i.nondets = append(i.nondets, NondetRec{Kind: "choice", Val: uint64(k)})
	return k
}

func apiAssume(fr *frame, a []value) value {
	i := fr.i
	switch c := a[0].(type) {
	case bool:
		if !c {
			panic(pathAbort{"assume", ""})
		}
	case *sym:
		r, _ := i.solver.Check(i.st, c.t, false)
		i.countFeas(r)
		if r == smt.Unsat {
			panic(pathAbort{"assume", ""})
		}
		i.solver.Assert(i.st, c.t)
	}
	return nil
}

func apiCover(fr *frame, a []value) value {
	fr.i.pathCovers = append(fr.i.pathCovers, a[0].(string))
	return nil
}

func apiKnown(fr *frame, a []value) value {
	i := fr.i
	id := a[0].(string)
	label := a[1].(string)
	i.pendingKnown = append(i.pendingKnown, knownRec{id: id + "\x00" + label, cond: i.term(a[2])})
	return nil
}

func apiAssert(fr *frame, a []value) value {
	fr.i.assertCond(a[0].(string), a[1], fr)
	return nil
}

func (i *interpreter) assertCond(label string, c value, fr *frame) {
	ex := i.ex
	st := i.st
	var neg *smt.Term
	switch c := c.(type) {
	case bool:
		if c {
			ex.mu.Lock()
			ex.res.AssertConcTrue++
			ex.mu.Unlock()
			return
		}
		neg = st.Bool(true)
	case *sym:
		neg = st.Not(c.t)
	default:
		panic(unsupported(fmt.Sprintf("verifAssert on %T", c)))
	}
	var knowns []knownRec
	for _, k := range i.pendingKnown {
		parts := strings.SplitN(k.id, "\x00", 2)
		if parts[1] == label || parts[1] == "*" {
			knowns = append(knowns, knownRec{id: parts[0], cond: k.cond})
		}
	}
	fresh := neg
	for _, k := range knowns {
		fresh = st.And(fresh, st.Not(k.cond))
	}
	pos := ""
	if fr != nil && fr.caller != nil {
		pos = fr.caller.posString(fr.caller.curPos())
	}
	anySat := false
	if !(fresh.IsConst() && fresh.Val == 0) {
		r, _ := i.solver.CheckPatient(st, fresh, false, 6)
		ex.mu.Lock()
		ex.res.AssertQ++
		switch r {
		case smt.Unsat:
			ex.res.AssertUnsat++
		case smt.Sat:
			ex.res.AssertSat++
		default:
			ex.res.Unknown++
			ex.res.incompleteN["assertion query unknown: "+label]++
		}
		ex.mu.Unlock()
		if r == smt.Sat {
			anySat = true
			i.reportViolationK(label, "assert", "assertion "+label+" fails at "+pos, fresh, "")
		}
	} else {
		ex.mu.Lock()
		ex.res.AssertQ++
		ex.res.AssertUnsat++
		ex.mu.Unlock()
	}
	for _, k := range knowns {
		q := st.And(neg, k.cond)
		if q.IsConst() && q.Val == 0 {
			continue
		}
		r, _ := i.solver.Check(st, q, false)
		ex.mu.Lock()
		ex.res.AssertQ++
		if r == smt.Sat {
			ex.res.AssertSat++
		} else if r == smt.Unsat {
			ex.res.AssertUnsat++
		}
		ex.mu.Unlock()
		if r == smt.Sat {
			anySat = true
			i.reportViolationK(label, "assert", "known finding "+k.id+": assertion "+label+" fails at "+pos, q, k.id)
		}
	}
	// continue the path under the asserted condition
	if cs, ok := c.(*sym); ok {
		if anySat {
			r, _ := i.solver.Check(st, cs.t, false)
			if r == smt.Unsat {
				panic(pathAbort{"violation", label})
			}
		}
		i.solver.Assert(st, cs.t)
		return
	}
	panic(pathAbort{"violation", label})
}

// apiTry runs f and reports whether a guest panic escaped it.
func apiTry(fr *frame, a []value) (res value) {
	i := fr.i
	depth := i.depth
	defer func() {
		if r := recover(); r != nil {
			if _, ok := r.(targetPanic); ok {
				i.depth = depth
				res = true
				return
			}
			panic(r)
		}
	}()
	i.call(fr, fr.callpos, a[0], nil)
	return false
}

func apiIte(fr *frame, a []value) value {
	i := fr.i
	switch c := a[0].(type) {
	case bool:
		if c {
			return a[1]
		}
		return a[2]
	case *sym:
		tx, ty := i.term(a[1]), i.term(a[2])
		t := i.st.Ite(c.t, tx, ty)
		k := types.Int
		switch a[1].(type) {
		case bool:
			k = types.Bool
		case float64:
			k = types.Float64
		}
		if t.S.K == smt.KBool {
			return i.symBool(t)
		}
		return i.fromTerm(t, k)
	}
	panic(unsupported("verifIte condition"))
}

func apiUF(fr *frame, a []value) value {
	i := fr.i
	name := "uf_" + a[0].(string)
	var args []*smt.Term
	for _, x := range a[1:] {
		args = append(args, i.term(x))
	}
	return &sym{i.st.UF(name, smt.BV(64), args...)}
}

func apiPrint(fr *frame, a []value) value {
	if fr.i.sh.cfg.Verbose {
		fmt.Fprintf(os.Stderr, "[verifPrint] %s: %s\n", toString(a[0]), toString(a[1]))
	}
	return nil
}

// apiConcretize forks a symbolic int over [lo,hi] and returns the concrete value.
func apiConcretize(fr *frame, a []value) value {
	i := fr.i
	lo, hi := int(asInt64(a[1])), int(asInt64(a[2]))
	s, ok := a[0].(*sym)
	if !ok {
		return a[0]
	}
	var conds []*smt.Term
	for v := lo; v <= hi; v++ {
		conds = append(conds, i.st.Eq(s.t, i.st.Const(s.t.S, uint64(int64(v)))))
	}
	k := i.chooseN(conds)
	if k < 0 {
		panic(pathAbort{"assume", "concretize out of range"})
	}
	return lo + k
}

func apiIsNaN(fr *frame, a []value) value {
	i := fr.i
	return i.symBool(i.st.FPIsNaN(i.term(a[0])))
}

// evalTerm evaluates the restricted term shapes used for nondet values under a model.
func evalTerm(t *smt.Term, m *smt.Model) uint64 {
	switch t.Op {
	case "const":
		return t.Val
	case "var":
		return m.Vars[t.Name]
	case "((_ to_fp 11 53)":
		return evalTerm(t.Args[0], m)
	}
	return 0
}

func (sh *Shared) intrinsicFor(fn *ssa.Function) externalFn {
	name := fn.Name()
	if fn.Blocks == nil && strings.HasPrefix(name, "verif") {
		if f := harnessAPI[name]; f != nil {
			return f
		}
	}
	full := fn.String()
	if f := intrinsics[full]; f != nil {
		return f
	}
	if o := fn.Origin(); o != nil && o != fn {
		if f := intrinsics[o.String()]; f != nil {
			return f
		}
	}
	return nil
}

func (sh *Shared) interpretable(fn *ssa.Function) bool {
	pkg := fn.Pkg
	if pkg == nil {
		if o := fn.Origin(); o != nil {
			pkg = o.Pkg
		}
	}
	if pkg == nil {
		// synthetic wrappers / bound methods have generated bodies that dispatch to the real
		// method; without a body follow the declared object
		if fn.Synthetic != "" && fn.Blocks != nil {
			return true
		}
		if obj := fn.Object(); obj != nil && obj.Pkg() != nil {
			return sh.interpPkgs[obj.Pkg().Path()]
		}
		return true
	}
	return sh.interpPkgs[pkg.Pkg.Path()]
}
