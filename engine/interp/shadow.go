package interp

import "unsafe"

// Shadowed strings. verifShadow(sym, twin) registers a concrete twin (same length) for a
// partly symbolic string: operations that can only run on concrete text - regexp matching, i.e.
// the lexer - see the twin, everything else sees the symbolic bytes. The harness owns the
// obligation that no lexing decision depends on the bytes that differ (it constrains them to an
// alphabet the token grammar does not distinguish); the evidence lists the use.
type shadowRec struct {
	b    []value
	twin string
}

func (i *interpreter) shadowOf(b []value) (string, bool) {
	if len(b) == 0 {
		return "", true
	}
	p := uintptr(unsafe.Pointer(&b[0]))
	var zero value
	sz := unsafe.Sizeof(zero)
	for _, r := range i.shadows {
		base := uintptr(unsafe.Pointer(&r.b[0]))
		if p < base {
			continue
		}
		off := int((p - base) / sz)
		if off+len(b) <= len(r.b) && (p-base)%sz == 0 {
			return r.twin[off : off+len(b)], true
		}
	}
	return "", false
}

func apiShadow(fr *frame, a []value) value {
	i := fr.i
	s := toSymstr(a[0])
	twin := concStr(a[1], "verifShadow twin")
	if len(twin) != len(s.b) {
		panic(unsupported("verifShadow: twin of different length"))
	}
	// a private backing array, so that sub-slices are recognisable by address
	b := make([]value, len(s.b))
	copy(b, s.b)
	i.shadows = append(i.shadows, shadowRec{b: b, twin: twin})
	i.pathModels["verifShadow (lexing on a concrete twin)"]++
	return symstr{b}
}
