package interp

import (
	"go/types"
)

// Models of the sync primitives. State lives in side tables keyed by the primitive's address;
// the tables are cleared at every path start except entries created by package initialisers.
// Without guest goroutines the operations have their sequential meaning (a second Lock by the
// only goroutine, or a Wait nobody can end, is a reported deadlock).

type lockState struct {
	held    int
	waiters []*goroutine
	vc      []int
}

type onceState struct {
	phase   int // 0 new, 1 running, 2 done
	owner   *goroutine
	waiters []*goroutine
	vc      []int
}

type wgState struct {
	waiters []*goroutine
	vc      []int
}

type syncTables struct {
	locks  map[*value]*lockState
	onceSt map[*value]*onceState
	wg     map[*value]int
	wgs    map[*value]*wgState
	conds  map[*value]*condState
	atoms  map[*value]*[]int
}

func (t *syncTables) wgState(p *value) *wgState {
	st := t.wgs[p]
	if st == nil {
		st = &wgState{}
		t.wgs[p] = st
	}
	return st
}

type condState struct {
	locker  value
	waiters []*goroutine
}

func (i *interpreter) syncT() *syncTables {
	if i.syncTab == nil {
		i.syncTab = &syncTables{locks: map[*value]*lockState{}, onceSt: map[*value]*onceState{},
			wg: map[*value]int{}, wgs: map[*value]*wgState{}, conds: map[*value]*condState{}, atoms: map[*value]*[]int{}}
	}
	return i.syncTab
}

func (i *interpreter) mutexLock(p *value) value {
	if p == nil {
		i.guestPanic("invalid memory address or nil pointer dereference")
	}
	t := i.syncT()
	ls := t.locks[p]
	if ls == nil {
		ls = &lockState{}
		t.locks[p] = ls
	}
	if i.sched != nil {
		i.sched.lock(i, p, ls)
		return nil
	}
	if ls.held > 0 {
		i.deadlock("sync.Mutex locked twice by the only goroutine")
	}
	ls.held++
	return nil
}

func (i *interpreter) mutexUnlock(p *value) value {
	t := i.syncT()
	ls := t.locks[p]
	if ls == nil || ls.held == 0 {
		i.fatal("sync: unlock of unlocked mutex")
	}
	if i.sched != nil {
		i.sched.unlock(i, p, ls)
		return nil
	}
	ls.held--
	return nil
}

func (i *interpreter) onceDo(fr *frame, p *value, f value) value {
	t := i.syncT()
	if i.sched != nil {
		i.sched.yield(i, "once")
	}
	if i.onceInit[p] {
		return nil
	}
	st := t.onceSt[p]
	if st == nil {
		st = &onceState{}
		t.onceSt[p] = st
	}
	for st.phase == 1 {
		// another goroutine is running f: the real Once blocks until it returns
		if i.sched == nil || st.owner == i.sched.cur {
			i.deadlock("sync.Once.Do called re-entrantly from its own function")
		}
		st.waiters = append(st.waiters, i.sched.cur)
		i.sched.block("Once.Do")
	}
	if st.phase == 2 {
		if i.sched != nil {
			i.sched.acquire(st.vc)
		}
		return nil
	}
	if i.inInit {
		i.onceInit[p] = true
		i.call(fr, 0, f, nil)
		return nil
	}
	st.phase = 1
	if i.sched != nil {
		st.owner = i.sched.cur
	}
	defer func() {
		// Do marks the Once done even if f panics
		st.phase = 2
		if i.sched != nil {
			i.sched.release(&st.vc)
			for _, g := range st.waiters {
				i.sched.wake(g)
			}
			st.waiters = nil
		}
	}()
	i.call(fr, 0, f, nil)
	return nil
}

func (i *interpreter) wgAdd(p *value, n int) value {
	t := i.syncT()
	t.wg[p] += n
	if t.wg[p] < 0 {
		i.guestPanic("sync: negative WaitGroup counter")
	}
	if i.sched != nil {
		i.sched.wgChanged(i, p)
	}
	return nil
}

func (i *interpreter) wgWait(p *value) value {
	t := i.syncT()
	if i.sched != nil {
		i.sched.wgWait(i, p)
		return nil
	}
	if t.wg[p] > 0 {
		i.deadlock("sync.WaitGroup.Wait with no other goroutine")
	}
	return nil
}

// newCond builds a *sync.Cond whose L field is the given Locker.
func (i *interpreter) newCond(fr *frame, l value) value {
	var cell value
	if fr != nil && fr.fn != nil {
		T := deref(fr.fn.Signature.Results().At(0).Type())
		cell = zero(T)
		if st, ok := T.Underlying().(*types.Struct); ok {
			for k := 0; k < st.NumFields(); k++ {
				if st.Field(k).Name() == "L" {
					cell.(structure)[k] = l
				}
			}
		}
	} else {
		cell = structure{l}
	}
	p := &cell
	i.syncT().conds[p] = &condState{locker: l}
	return p
}

func (i *interpreter) condState(p *value) *condState {
	t := i.syncT()
	cs := t.conds[p]
	if cs == nil {
		// a Cond built as a struct literal (sync.Cond{L: ...}): find the Locker field
		if st, ok := (*p).(structure); ok {
			for _, f := range st {
				if it, ok := f.(iface); ok && it.t != nil {
					cs = &condState{locker: it}
					t.conds[p] = cs
					break
				}
			}
		}
	}
	if cs == nil {
		panic(unsupported("sync.Cond without a Locker"))
	}
	return cs
}

func (i *interpreter) condWait(fr *frame, p *value) value {
	cs := i.condState(p)
	if i.sched != nil {
		i.sched.condWait(i, fr, p, cs)
		return nil
	}
	i.deadlock("sync.Cond.Wait with no other goroutine to signal")
	return nil
}

func (i *interpreter) condSignal(p *value, all bool) value {
	cs := i.condState(p)
	if i.sched != nil {
		i.sched.condSignal(i, cs, all)
	}
	return nil
}

func (i *interpreter) atomicPoint(p *value) {
	if i.sched != nil {
		i.sched.yield(i, "atomic")
		t := i.syncT()
		vc := t.atoms[p]
		if vc == nil {
			v := []int{}
			vc = &v
			t.atoms[p] = vc
		}
		i.sched.acquire(*vc)
		i.sched.release(vc)
	}
}

// deadlock ends the path with a hang finding.
func (i *interpreter) deadlock(msg string) {
	i.reportViolation("deadlock", "deadlock", msg, nil)
	panic(pathAbort{"violation", "deadlock"})
}

// fatal models a Go runtime fatal error (not recoverable): reported like a crash.
func (i *interpreter) fatal(msg string) {
	i.reportViolation("fatal", "panic", "fatal error: "+msg, nil)
	panic(pathAbort{"violation", "fatal"})
}
