package interp

// Sequential models of sync primitives (used when the cooperative scheduler is off, and as the
// base of the scheduler's versions). State lives in side tables keyed by the primitive's
// address; tables are cleared at every path start except entries created by package
// initialisers.

type lockState struct {
	held    int // number of holders (readers) or 1 for exclusive
	waiters []*goroutine
}

type syncTables struct {
	locks map[*value]*lockState
	once  map[*value]bool
	wg    map[*value]int
	conds map[*value]*condState
}

type condState struct {
	locker  value
	waiters []*goroutine
}

func (i *interpreter) syncT() *syncTables {
	if i.syncTab == nil {
		i.syncTab = &syncTables{locks: map[*value]*lockState{}, once: map[*value]bool{}, wg: map[*value]int{}, conds: map[*value]*condState{}}
	}
	return i.syncTab
}

func (i *interpreter) mutexLock(p *value) value {
	if p == nil {
		i.guestPanic("invalid memory address or nil pointer dereference")
	}
	t := i.syncT()
	ls := t.locks[p]
	if ls == nil {
		ls = &lockState{}
		t.locks[p] = ls
	}
	if i.sched != nil {
		i.sched.lock(i, p, ls)
		return nil
	}
	if ls.held > 0 {
		i.deadlock("sync.Mutex locked twice by the only goroutine")
	}
	ls.held++
	return nil
}

func (i *interpreter) mutexUnlock(p *value) value {
	t := i.syncT()
	ls := t.locks[p]
	if ls == nil || ls.held == 0 {
		i.fatal("sync: unlock of unlocked mutex")
	}
	if i.sched != nil {
		i.sched.unlock(i, p, ls)
		return nil
	}
	ls.held--
	return nil
}

func (i *interpreter) onceDo(fr *frame, p *value, f value) value {
	t := i.syncT()
	if i.sched != nil {
		i.sched.yield(i, "once")
	}
	if t.once[p] || i.onceInit[p] {
		return nil
	}
	if i.inInit {
		i.onceInit[p] = true
	} else {
		t.once[p] = true
	}
	i.call(fr, 0, f, nil)
	return nil
}

func (i *interpreter) wgAdd(p *value, n int) value {
	t := i.syncT()
	t.wg[p] += n
	if t.wg[p] < 0 {
		i.guestPanic("sync: negative WaitGroup counter")
	}
	if i.sched != nil {
		i.sched.wgChanged(i, p)
	}
	return nil
}

func (i *interpreter) wgWait(p *value) value {
	t := i.syncT()
	if i.sched != nil {
		i.sched.wgWait(i, p)
		return nil
	}
	if t.wg[p] > 0 {
		i.deadlock("sync.WaitGroup.Wait with no other goroutine")
	}
	return nil
}

func (i *interpreter) newCond(l value) value {
	// *sync.Cond: allocate the real struct shape lazily is not needed; keep locker in a side table
	var cell value = structure{l}
	p := &cell
	i.syncT().conds[p] = &condState{locker: l}
	return p
}

func (i *interpreter) condWait(fr *frame, p *value) value {
	cs := i.syncT().conds[p]
	if cs == nil {
		panic(unsupported("sync.Cond not created by sync.NewCond"))
	}
	if i.sched != nil {
		i.sched.condWait(i, fr, p, cs)
		return nil
	}
	i.deadlock("sync.Cond.Wait with no other goroutine to signal")
	return nil
}

func (i *interpreter) condSignal(p *value, all bool) value {
	cs := i.syncT().conds[p]
	if cs == nil {
		panic(unsupported("sync.Cond not created by sync.NewCond"))
	}
	if i.sched != nil {
		i.sched.condSignal(i, cs, all)
	}
	return nil
}

func (i *interpreter) atomicPoint(p *value) {
	if i.sched != nil {
		i.sched.yield(i, "atomic")
	}
}

// deadlock ends the path with a hang finding.
func (i *interpreter) deadlock(msg string) {
	i.reportViolation("deadlock", "deadlock", msg, nil)
	panic(pathAbort{"violation", "deadlock"})
}

// fatal models a Go runtime fatal error (not recoverable): reported like a crash.
func (i *interpreter) fatal(msg string) {
	i.reportViolation("fatal", "panic", "fatal error: "+msg, nil)
	panic(pathAbort{"violation", "fatal"})
}
