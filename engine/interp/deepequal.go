package interp

import "fmt"

// reflect.DeepEqual over executor values (structural; symbolic scalars compare by forking).

type deVisit struct{ a, b *value }

func (i *interpreter) deepEqual(fr *frame, x, y value, seen map[deVisit]bool) bool {
	switch x := x.(type) {
	case nil:
		return y == nil
	case iface:
		yi, ok := y.(iface)
		if !ok {
			return false
		}
		if x.t == nil || yi.t == nil {
			return x.t == nil && yi.t == nil
		}
		if !sameType(x.t, yi.t) {
			return false
		}
		return i.deepEqual(fr, x.v, yi.v, seen)
	case structure:
		ys, ok := y.(structure)
		if !ok || len(x) != len(ys) {
			return false
		}
		for k := range x {
			if !i.deepEqual(fr, x[k], ys[k], seen) {
				return false
			}
		}
		return true
	case array:
		ys, ok := y.(array)
		if !ok || len(x) != len(ys) {
			return false
		}
		for k := range x {
			if !i.deepEqual(fr, x[k], ys[k], seen) {
				return false
			}
		}
		return true
	case []value:
		ys, ok := y.([]value)
		if !ok || (x == nil) != (ys == nil) || len(x) != len(ys) {
			return false
		}
		for k := range x {
			if !i.deepEqual(fr, x[k], ys[k], seen) {
				return false
			}
		}
		return true
	case *value:
		yp, ok := y.(*value)
		if !ok {
			return false
		}
		if x == yp {
			return true
		}
		if x == nil || yp == nil {
			return false
		}
		v := deVisit{x, yp}
		if seen[v] {
			return true
		}
		seen[v] = true
		return i.deepEqual(fr, *x, *yp, seen)
	case *gomap:
		ym, ok := y.(*gomap)
		if !ok {
			return false
		}
		if x == ym {
			return true
		}
		if x == nil || ym == nil || len(x.entries) != len(ym.entries) {
			return false
		}
		for _, e := range x.entries {
			o := i.mapFind(ym, e.key)
			if o == nil || !i.deepEqual(fr, e.val, o.val, seen) {
				return false
			}
		}
		return true
	case *closure:
		yc, ok := y.(*closure)
		return ok && x == nil && yc == nil
	case string, symstr:
		if !isStr(y) {
			return false
		}
		return fr.condBool(i.strEq(toSymstr(x), toSymstr(y)))
	case poison:
		panic(unsupported("reflect.DeepEqual of poison: " + x.why))
	}
	switch y.(type) {
	case iface, structure, array, []value, *value, *gomap, *closure, string, symstr:
		return false
	}
	if fmt.Sprintf("%T", x) != fmt.Sprintf("%T", y) && !isSym(x) && !isSym(y) {
		return false
	}
	return fr.condBool(i.equals(nil, x, y))
}

func init() {
	reg("reflect.DeepEqual", func(fr *frame, a []value) value {
		return fr.i.deepEqual(fr, a[0], a[1], map[deVisit]bool{})
	})
}
