package interp

import (
	"fmt"
	"go/types"
	"math"
	"math/bits"
	"regexp"
	"strconv"
	"strings"
	"time"
	"unicode/utf8"

	"golang.org/x/tools/go/ssa"

	"symgo/smt"
)

// intrinsics are functions the executor models instead of interpreting: assembler or unsafe
// bodies, the environment, error construction and formatting. Keys are ssa.Function.String()
// (the generic origin for instantiations). Every entry is part of each check's trusted base
// and is listed in the evidence when touched.
var intrinsics = map[string]externalFn{}

func reg(name string, f externalFn) { intrinsics[name] = f }

type hostRegexp struct{ re *regexp.Regexp }

// nativeFn wraps a Go closure as a guest function value.
type nativeFn struct {
	name string
	f    func(i *interpreter, args []value) value
}

func init() {
	// ---- model plumbing ----
	reg("github.com/arr-ai/frozen.modelChoice", func(fr *frame, a []value) value {
		if !fr.i.orderFree {
			return 0
		}
		return fr.i.freeChoice(int(asInt64(a[0])), "order")
	})
	reg("github.com/arr-ai/frozen.modelOrderFree", func(fr *frame, a []value) value { return fr.i.orderFree && fr.i.orderBudget > 0 })
	reg("github.com/arr-ai/frozen.modelDeviated", func(fr *frame, a []value) value { fr.i.orderBudget--; return nil })
	reg("github.com/arr-ai/hash.modelUnsupported", func(fr *frame, a []value) value {
		panic(unsupported("model: " + toString(a[0])))
	})
	for _, h := range []struct {
		name string
		w    int
	}{{"Bool", 0}, {"Int", 64}, {"Int8", 8}, {"Int16", 16}, {"Int32", 32}, {"Int64", 64}, {"Uint", 64}, {"Uint8", 8},
		{"Uint16", 16}, {"Uint32", 32}, {"Uint64", 64}, {"Uintptr", 64}} {
		h := h
		reg("github.com/arr-ai/hash."+h.name, func(fr *frame, a []value) value {
			i := fr.i
			x := i.term(a[0])
			if h.w == 0 {
				x = i.st.BoolToBV(x, 8)
			}
			return i.fromTerm(i.st.UF("hash_"+h.name, smt.BV(64), x, i.term(a[1])), types.Uintptr)
		})
	}
	reg("github.com/arr-ai/hash.Float64", func(fr *frame, a []value) value {
		i := fr.i
		st := i.st
		f := i.term(a[0])
		seed := i.term(a[1])
		// facts from hash/alg.go: +0 and -0 hash alike; a NaN hashes to an arbitrary value.
		// Model: hash of the canonicalised bit pattern for non-NaN; a fresh unconstrained value for NaN.
		if f.IsConst() {
			v := math.Float64frombits(f.Val)
			if v == 0 {
				f = st.Float(0)
			}
			if v != v {
				return &sym{st.Var(smt.BV(64), "nanhash")}
			}
			return i.fromTerm(st.UF("hash_Float64", smt.BV(64), f, seed), types.Uintptr)
		}
		// the uninterpreted function ranges over the float value itself (an FP-sorted argument:
		// no bit pattern needs to be recovered); -0 is canonicalised to +0
		if f.Op == "i2f.s" || f.Op == "i2f.u" {
			return &sym{st.UF("hash_Float64", smt.BV(64), f, seed)} // an exact integer is never -0 or NaN
		}
		isZero := st.FPCmp("fp.eq", f, st.Float(0))
		canon := st.Ite(isZero, st.Float(0), f)
		h := st.UF("hash_Float64", smt.BV(64), canon, seed)
		nan := st.Var(smt.BV(64), "nanhash")
		return &sym{st.Ite(st.FPIsNaN(f), nan, h)}
	})
	reg("github.com/arr-ai/hash.String", func(fr *frame, a []value) value {
		i := fr.i
		bs := strBytes(a[0])
		h := i.term(a[1])
		// fold: a function of the byte sequence and the seed
		h = i.st.UF("hash_StrLen", smt.BV(64), i.st.Const(smt.BV(64), uint64(len(bs))), h)
		for _, b := range bs {
			h = i.st.UF("hash_StrByte", smt.BV(64), i.term(b), h)
		}
		return i.fromTerm(h, types.Uintptr)
	})

	// ---- errors and formatting ----
	reg("fmt.Errorf", func(fr *frame, a []value) value { return fr.i.newError("fmt.Errorf: " + fmtKey(a[0])) })
	reg("errors.New", nil) // interpreted
	delete(intrinsics, "errors.New")
	reg("runtime.Callers", func(fr *frame, a []value) value { return 0 })
	reg("runtime.Caller", func(fr *frame, a []value) value { return tuple{uintptr(0), "", 0, false} })
	reg("runtime.Stack", func(fr *frame, a []value) value { return 0 })
	reg("runtime/debug.Stack", func(fr *frame, a []value) value { return []value(nil) })
	reg("runtime.KeepAlive", func(fr *frame, a []value) value { return nil })
	reg("runtime.GC", func(fr *frame, a []value) value { return nil })
	reg("runtime.Gosched", func(fr *frame, a []value) value { return nil })
	reg("fmt.Sprintf", func(fr *frame, a []value) value { return fr.i.sprintf(fr, a[0], a[1].([]value)) })
	reg("fmt.Sprint", func(fr *frame, a []value) value { return fr.i.sprint(fr, a[0].([]value), false) })
	reg("fmt.Sprintln", func(fr *frame, a []value) value { return fr.i.sprint(fr, a[0].([]value), true) })
	reg("fmt.Fprintf", func(fr *frame, a []value) value {
		s := fr.i.sprintf(fr, a[1], a[2].([]value))
		return fr.i.writeTo(fr, a[0], s)
	})
	reg("fmt.Fprint", func(fr *frame, a []value) value {
		s := fr.i.sprint(fr, a[1].([]value), false)
		return fr.i.writeTo(fr, a[0], s)
	})
	reg("fmt.Fprintln", func(fr *frame, a []value) value {
		s := fr.i.sprint(fr, a[1].([]value), true)
		return fr.i.writeTo(fr, a[0], s)
	})
	reg("fmt.Printf", func(fr *frame, a []value) value { return tuple{0, iface{}} })
	reg("fmt.Println", func(fr *frame, a []value) value { return tuple{0, iface{}} })
	reg("fmt.Print", func(fr *frame, a []value) value { return tuple{0, iface{}} })
	reg("log.Printf", func(fr *frame, a []value) value { return nil })
	reg("log.Println", func(fr *frame, a []value) value { return nil })
	reg("log.Print", func(fr *frame, a []value) value { return nil })
	for _, n := range []string{"Debugf", "Infof", "Warnf", "Warningf", "Errorf", "Tracef", "Debug", "Info", "Warn", "Error", "Printf", "Println"} {
		reg("github.com/sirupsen/logrus."+n, func(fr *frame, a []value) value { return nil })
	}

	// ---- strconv / math on concrete operands; symbolic where a closed form exists ----
	reg("strconv.FormatFloat", func(fr *frame, a []value) value {
		f, ok := a[0].(float64)
		if !ok {
			panic(unsupported("strconv.FormatFloat of a symbolic float"))
		}
		return strconv.FormatFloat(f, a[1].(uint8), int(asInt64(a[2])), int(asInt64(a[3])))
	})
	reg("math.Floor", func(fr *frame, a []value) value { return fr.i.fpRound("RTN", a[0]) })
	reg("math.Ceil", func(fr *frame, a []value) value { return fr.i.fpRound("RTP", a[0]) })
	reg("math.Trunc", func(fr *frame, a []value) value { return fr.i.fpRound("RTZ", a[0]) })
	reg("math.Float64bits", func(fr *frame, a []value) value {
		if f, ok := a[0].(float64); ok {
			return math.Float64bits(f)
		}
		return &sym{fr.i.floatBits(fr.i.term(a[0]))}
	})
	reg("math.Float64frombits", func(fr *frame, a []value) value {
		if b, ok := a[0].(uint64); ok {
			return math.Float64frombits(b)
		}
		return &sym{fr.i.st.FPFromBits(fr.i.term(a[0]))}
	})
	reg("math.IsNaN", func(fr *frame, a []value) value { return fr.i.symBool(fr.i.st.FPIsNaN(fr.i.term(a[0]))) })
	reg("math.IsInf", func(fr *frame, a []value) value {
		i := fr.i
		st := i.st
		f := i.term(a[0])
		sign := asInt64(a[1])
		inf := st.FPIsInf(f)
		switch {
		case sign > 0:
			return i.symBool(st.And(inf, st.FPCmp("fp.gt", f, st.Float(0))))
		case sign < 0:
			return i.symBool(st.And(inf, st.FPCmp("fp.lt", f, st.Float(0))))
		}
		return i.symBool(inf)
	})
	reg("math.Inf", func(fr *frame, a []value) value { return math.Inf(int(asInt64(a[0]))) })
	reg("math.NaN", func(fr *frame, a []value) value { return math.NaN() })
	reg("math.Abs", func(fr *frame, a []value) value {
		if f, ok := a[0].(float64); ok {
			return math.Abs(f)
		}
		return &sym{fr.i.st.FPFromBits(fr.i.st.BVBin("bvand", fr.i.floatBits(fr.i.term(a[0])), fr.i.st.Const(smt.BV(64), 1<<63-1)))}
	})
	for name, f := range map[string]func(float64) float64{"math.Sqrt": math.Sqrt, "math.Log": math.Log, "math.Exp": math.Exp, "math.Log2": math.Log2, "math.Log10": math.Log10,
		"math.Sin": math.Sin, "math.Cos": math.Cos, "math.Tan": math.Tan, "math.Round": math.Round} {
		name, f := name, f
		reg(name, func(fr *frame, a []value) value {
			x, ok := a[0].(float64)
			if !ok {
				panic(unsupported(name + " of a symbolic float"))
			}
			return f(x)
		})
	}
	for name, f := range map[string]func(float64, float64) float64{"math.Pow": math.Pow, "math.Mod": math.Mod, "math.Max": math.Max, "math.Min": math.Min, "math.Atan2": math.Atan2} {
		name, f := name, f
		reg(name, func(fr *frame, a []value) value {
			x, ok := a[0].(float64)
			y, ok2 := a[1].(float64)
			if !ok || !ok2 {
				panic(unsupported(name + " of symbolic floats"))
			}
			return f(x, y)
		})
	}

	// ---- reflect: type tokens only ----
	reg("reflect.TypeOf", func(fr *frame, a []value) value {
		x := a[0].(iface)
		if x.t == nil {
			return iface{}
		}
		return iface{t: fr.i.sh.rtypeType(), v: rtype{x.t}}
	})
	reg("(reflect.rtype).String", func(fr *frame, a []value) value { return typeString(a[0].(rtype).t) })
	reg("(reflect.rtype).Name", func(fr *frame, a []value) value {
		if n, ok := a[0].(rtype).t.(*types.Named); ok {
			return n.Obj().Name()
		}
		return ""
	})
	reg("internal/reflectlite.TypeOf", func(fr *frame, a []value) value {
		x := a[0].(iface)
		if x.t == nil {
			return iface{}
		}
		return iface{t: fr.i.sh.rtypeType(), v: rtype{x.t}}
	})
	reg("(reflect.rtype).Comparable", func(fr *frame, a []value) value { return types.Comparable(a[0].(rtype).t) })
	reg("internal/reflectlite.Swapper", func(fr *frame, a []value) value {
		s := a[0].(iface).v.([]value)
		return &nativeFn{name: "swapper", f: func(i *interpreter, args []value) value {
			x, y := int(asInt64(args[0])), int(asInt64(args[1]))
			vx, vy := s[x], s[y]
			i.setCellChecked(&s[x], vy)
			i.setCellChecked(&s[y], vx)
			return nil
		}}
	})
	reg("internal/reflectlite.ValueOf", func(fr *frame, a []value) value {
		return structure{a[0]} // only Len() is used (by sort.Slice)
	})
	reg("(internal/reflectlite.Value).Len", func(fr *frame, a []value) value {
		return len(a[0].(structure)[0].(iface).v.([]value))
	})

	// ---- bytealg / stringslite / unsafe helpers ----
	reg("internal/bytealg.IndexByteString", func(fr *frame, a []value) value { return fr.i.indexByte(strBytes(a[0]), a[1]) })
	reg("internal/bytealg.IndexByte", func(fr *frame, a []value) value { return fr.i.indexByte(a[0].([]value), a[1]) })
	reg("internal/bytealg.CountString", func(fr *frame, a []value) value { return fr.i.countByte(strBytes(a[0]), a[1]) })
	reg("internal/bytealg.Count", func(fr *frame, a []value) value { return fr.i.countByte(a[0].([]value), a[1]) })
	reg("internal/bytealg.Equal", func(fr *frame, a []value) value {
		return fr.i.strEq(symstr{a[0].([]value)}, symstr{a[1].([]value)})
	})
	reg("internal/bytealg.Compare", func(fr *frame, a []value) value {
		return fr.i.compareBytes(a[0].([]value), a[1].([]value))
	})
	reg("internal/bytealg.CompareString", func(fr *frame, a []value) value {
		return fr.i.compareBytes(strBytes(a[0]), strBytes(a[1]))
	})
	reg("internal/bytealg.MakeNoZero", func(fr *frame, a []value) value {
		n := int(asInt64(a[0]))
		s := make([]value, n)
		for k := range s {
			s[k] = uint8(0)
		}
		return s
	})
	// math/bits by definition (the GOROOT versions use de Bruijn multiplication tables)
	for _, w := range []int{64, 32, 16, 8} {
		w := w
		suffix := strconv.Itoa(w)
		tz := func(fr *frame, a []value) value {
			i := fr.i
			s, ok := a[0].(*sym)
			if !ok {
				x := uint64(asInt64(a[0]))
				if w < 64 {
					x &= 1<<uint(w) - 1
				}
				if x == 0 {
					return w
				}
				return bits.TrailingZeros64(x)
			}
			st := i.st
			var conds []*smt.Term
			for k := 0; k < w; k++ {
				low := st.Extract(k, 0, s.t) // bits k..0 == 1 followed by k zeros
				conds = append(conds, st.Eq(low, st.Const(smt.BV(k+1), 1<<uint(k))))
			}
			conds = append(conds, st.Eq(s.t, st.Const(s.t.S, 0)))
			k := i.chooseN(conds)
			if k < 0 {
				panic(pathAbort{"assume", "TrailingZeros: infeasible"})
			}
			return k
		}
		reg("math/bits.TrailingZeros"+suffix, tz)
		if w == 64 {
			reg("math/bits.TrailingZeros", tz)
		}
		lenf := func(fr *frame, a []value) value {
			i := fr.i
			s, ok := a[0].(*sym)
			if !ok {
				x := uint64(asInt64(a[0]))
				if w < 64 {
					x &= 1<<uint(w) - 1
				}
				return bits.Len64(x)
			}
			st := i.st
			var conds []*smt.Term
			conds = append(conds, st.Eq(s.t, st.Const(s.t.S, 0)))
			for k := 1; k <= w; k++ {
				// highest set bit is k-1
				hi := st.Extract(w-1, k-1, s.t)
				conds = append(conds, st.Eq(hi, st.Const(smt.BV(w-k+1), 1)))
			}
			k := i.chooseN(conds)
			if k < 0 {
				panic(pathAbort{"assume", "Len: infeasible"})
			}
			return k
		}
		reg("math/bits.Len"+suffix, lenf)
		if w == 64 {
			reg("math/bits.Len", lenf)
		}
	}

	// UTF-8 coding by definition (the GOROOT versions index 256-entry tables with the input byte)
	reg("unicode/utf8.DecodeRuneInString", func(fr *frame, a []value) value {
		bs := strBytes(a[0])
		if len(bs) == 0 {
			return tuple{int32(0xFFFD), 0}
		}
		r, n := fr.i.decodeRune(bs)
		return tuple{r, n}
	})
	reg("unicode/utf8.DecodeRune", func(fr *frame, a []value) value {
		bs := a[0].([]value)
		if len(bs) == 0 {
			return tuple{int32(0xFFFD), 0}
		}
		r, n := fr.i.decodeRune(bs)
		return tuple{r, n}
	})
	reg("unicode/utf8.RuneLen", func(fr *frame, a []value) value {
		i := fr.i
		if c, ok := a[0].(int32); ok {
			return utf8.RuneLen(c)
		}
		st := i.st
		t := i.term(a[0])
		c32 := func(v uint64) *smt.Term { return st.Const(smt.BV(32), v) }
		switch {
		case i.decide(st.BVCmp("bvslt", t, c32(0))):
			return -1
		case i.decide(st.BVCmp("bvult", t, c32(0x80))):
			return 1
		case i.decide(st.BVCmp("bvult", t, c32(0x800))):
			return 2
		case i.decide(st.And(st.BVCmp("bvuge", t, c32(0xD800)), st.BVCmp("bvule", t, c32(0xDFFF)))):
			return -1
		case i.decide(st.BVCmp("bvult", t, c32(0x10000))):
			return 3
		case i.decide(st.BVCmp("bvule", t, c32(0x10FFFF))):
			return 4
		}
		return -1
	})
	reg("unicode/utf8.AppendRune", func(fr *frame, a []value) value {
		return fr.i.appendSlice(a[0].([]value), fr.i.encodeRune(a[1]), types.Typ[types.Uint8])
	})
	reg("unicode/utf8.EncodeRune", func(fr *frame, a []value) value {
		i := fr.i
		p := a[0].([]value)
		enc := i.encodeRune(a[1])
		if len(p) < len(enc) {
			i.guestPanic("index out of range (utf8.EncodeRune)")
		}
		for k, b := range enc {
			i.setCellChecked(&p[k], b)
		}
		return len(enc)
	})
	reg("unicode/utf8.RuneCountInString", func(fr *frame, a []value) value {
		bs := strBytes(a[0])
		n := 0
		for p := 0; p < len(bs); n++ {
			_, k := fr.i.decodeRune(bs[p:])
			p += k
		}
		return n
	})
	reg("unicode/utf8.RuneCount", func(fr *frame, a []value) value {
		bs := a[0].([]value)
		n := 0
		for p := 0; p < len(bs); n++ {
			_, k := fr.i.decodeRune(bs[p:])
			p += k
		}
		return n
	})
	reg("unicode/utf8.ValidString", func(fr *frame, a []value) value {
		bs := strBytes(a[0])
		for p := 0; p < len(bs); {
			r, k := fr.i.decodeRune(bs[p:])
			if k == 1 {
				if fr.condBool(fr.i.equals(nil, r, int32(0xFFFD))) {
					return false
				}
			}
			p += k
		}
		return true
	})
	reg("unicode/utf8.ValidRune", func(fr *frame, a []value) value {
		i := fr.i
		st := i.st
		t := i.term(a[0])
		c32 := func(v uint64) *smt.Term { return st.Const(smt.BV(32), v) }
		ok := st.Or(st.BVCmp("bvult", t, c32(0xD800)), st.And(st.BVCmp("bvugt", t, c32(0xDFFF)), st.BVCmp("bvule", t, c32(0x10FFFF))))
		return i.symBool(ok)
	})

	// substring search by definition (the GOROOT versions go through assembler or Rabin-Karp
	// hashing, whose multiplications are a poor fit for bit-blasting)
	indexOf := func(fr *frame, s, sub []value) value {
		i := fr.i
		n, m := len(s), len(sub)
		for k := 0; k+m <= n; k++ {
			if fr.condBool(i.strEq(symstr{s[k : k+m]}, symstr{sub})) {
				return k
			}
		}
		return -1
	}
	reg("strings.Index", func(fr *frame, a []value) value { return indexOf(fr, strBytes(a[0]), strBytes(a[1])) })
	reg("bytes.Index", func(fr *frame, a []value) value { return indexOf(fr, a[0].([]value), a[1].([]value)) })
	reg("internal/stringslite.Index", func(fr *frame, a []value) value { return indexOf(fr, strBytes(a[0]), strBytes(a[1])) })
	reg("internal/bytealg.IndexString", func(fr *frame, a []value) value { return indexOf(fr, strBytes(a[0]), strBytes(a[1])) })
	reg("internal/bytealg.Index", func(fr *frame, a []value) value { return indexOf(fr, a[0].([]value), a[1].([]value)) })
	lastIndexOf := func(fr *frame, s, sub []value) value {
		i := fr.i
		n, m := len(s), len(sub)
		for k := n - m; k >= 0; k-- {
			if fr.condBool(i.strEq(symstr{s[k : k+m]}, symstr{sub})) {
				return k
			}
		}
		return -1
	}
	reg("strings.LastIndex", func(fr *frame, a []value) value { return lastIndexOf(fr, strBytes(a[0]), strBytes(a[1])) })
	reg("bytes.LastIndex", func(fr *frame, a []value) value { return lastIndexOf(fr, a[0].([]value), a[1].([]value)) })
	reg("internal/stringslite.Clone", func(fr *frame, a []value) value { return a[0] })
	reg("strings.Clone", func(fr *frame, a []value) value { return a[0] })
	reg("unsafe.String", func(fr *frame, a []value) value { panic(unsupported("unsafe.String")) })
	reg("internal/abi.NoEscape", func(fr *frame, a []value) value { return a[0] })
	reg("internal/abi.Escape", func(fr *frame, a []value) value { return a[0] })
	reg("internal/race.Enabled", nil)
	delete(intrinsics, "internal/race.Enabled")
	reg("internal/cpu.Initialize", func(fr *frame, a []value) value { return nil })

	// strings.Builder: keep the accumulated bytes in the builder's buf field ([]byte) and
	// convert on String() without unsafe.
	reg("(*strings.Builder).String", func(fr *frame, a []value) value {
		b := (*a[0].(*value)).(structure)
		buf := b[1].([]value)
		out := make([]value, len(buf))
		copy(out, buf)
		return normStr(out)
	})
	reg("(*strings.Builder).copyCheck", func(fr *frame, a []value) value { return nil })
	reg("(*strings.Builder).grow", func(fr *frame, a []value) value { return nil })
	reg("(*strings.Builder).Grow", func(fr *frame, a []value) value { return nil })
	reg("(*bytes.Buffer).String", func(fr *frame, a []value) value {
		p := a[0].(*value)
		if p == nil {
			return "<nil>"
		}
		b := (*p).(structure)
		buf := b[0].([]value)
		off := int(asInt64(b[1]))
		out := make([]value, len(buf)-off)
		copy(out, buf[off:])
		return normStr(out)
	})

	// ---- regexp: opaque host object; matching only on concrete input ----
	reg("regexp.MustCompile", func(fr *frame, a []value) value {
		pat, ok := a[0].(string)
		if !ok {
			panic(unsupported("regexp.MustCompile of a symbolic pattern"))
		}
		var cell value = hostRegexp{regexp.MustCompile(pat)}
		return &cell
	})
	reMatch := func(fr *frame, a []value) value {
		re := (*a[0].(*value)).(hostRegexp).re
		switch x := a[1].(type) {
		case string:
			return re.MatchString(x)
		case []value:
			bs := make([]byte, len(x))
			for k, b := range x {
				c, ok := b.(uint8)
				if !ok {
					panic(unsupported("regexp match on symbolic input"))
				}
				bs[k] = c
			}
			return re.Match(bs)
		}
		panic(unsupported("regexp match on symbolic input"))
	}
	reg("(*regexp.Regexp).MatchString", reMatch)
	reg("(*regexp.Regexp).Match", reMatch)
	reg("time.Parse", func(fr *frame, a []value) value {
		res := fr.fn.Signature.Results()
		layout, ok1 := a[0].(string)
		text, ok2 := a[1].(string)
		if !ok1 || !ok2 {
			panic(unsupported("time.Parse of a symbolic string"))
		}
		t, err := time.Parse(layout, text)
		if err != nil {
			return tuple{zero(res.At(0).Type()), fr.i.newError("time.Parse: " + err.Error())}
		}
		// time.Time{wall, ext, loc} without a monotonic reading: wall holds the nanoseconds,
		// ext the seconds since year 1 (UTC location = nil)
		tv := zero(res.At(0).Type()).(structure)
		tv[0] = uint64(t.Nanosecond())
		tv[1] = int64(t.Unix() + 62135596800)
		return tuple{tv, iface{}}
	})

	// ---- time / os / environment: not available ----
	// environment stub: the run context of the server engine carries OS filesystems and build
	// data that the engine protocol never consults; it is passed through unchanged
	reg("github.com/arr-ai/arrai/pkg/arraictx.InitRunCtx", func(fr *frame, a []value) value { return a[0] })
	reg("time.Now", func(fr *frame, a []value) value { panic(unsupported("time.Now")) })
	// os.IsNotExist(err): true exactly for the io/fs.ErrNotExist sentinel (what the harness
	// filesystems return for a missing path); *PathError wrapping and errno values do not occur
	// because no real filesystem is reachable
	reg("os.IsNotExist", func(fr *frame, a []value) value {
		i := fr.i
		e := a[0].(iface)
		if e.t == nil {
			return false
		}
		pkg := i.sh.prog.ImportedPackage("io/fs")
		if pkg == nil {
			panic(unsupported("os.IsNotExist without io/fs"))
		}
		g, ok := pkg.Members["ErrNotExist"].(*ssa.Global)
		if !ok {
			panic(unsupported("io/fs.ErrNotExist not found"))
		}
		want := *i.globals[g]
		wi, ok := want.(iface)
		if !ok || wi.t == nil {
			panic(unsupported("io/fs.ErrNotExist is not initialised"))
		}
		if !sameType(e.t, wi.t) {
			return false
		}
		return i.equals(e.t, e.v, wi.v)
	})
	reg("os.Getenv", func(fr *frame, a []value) value { return "" })
	reg("os.Getwd", func(fr *frame, a []value) value { panic(unsupported("os.Getwd")) })

	// ---- sync (sequential semantics when the scheduler is off) ----
	reg("(*sync.Mutex).Lock", func(fr *frame, a []value) value { return fr.i.mutexLock(a[0].(*value)) })
	reg("(*sync.Mutex).Unlock", func(fr *frame, a []value) value { return fr.i.mutexUnlock(a[0].(*value)) })
	reg("(*sync.Mutex).TryLock", func(fr *frame, a []value) value { panic(unsupported("TryLock")) })
	reg("(*sync.RWMutex).Lock", func(fr *frame, a []value) value { return fr.i.mutexLock(a[0].(*value)) })
	reg("(*sync.RWMutex).Unlock", func(fr *frame, a []value) value { return fr.i.mutexUnlock(a[0].(*value)) })
	reg("(*sync.RWMutex).RLock", func(fr *frame, a []value) value { return fr.i.mutexLock(a[0].(*value)) })
	reg("(*sync.RWMutex).RUnlock", func(fr *frame, a []value) value { return fr.i.mutexUnlock(a[0].(*value)) })
	reg("(*sync.Once).Do", func(fr *frame, a []value) value { return fr.i.onceDo(fr, a[0].(*value), a[1]) })
	reg("(*sync.WaitGroup).Add", func(fr *frame, a []value) value { return fr.i.wgAdd(a[0].(*value), int(asInt64(a[1]))) })
	reg("(*sync.WaitGroup).Done", func(fr *frame, a []value) value { return fr.i.wgAdd(a[0].(*value), -1) })
	reg("(*sync.WaitGroup).Wait", func(fr *frame, a []value) value { return fr.i.wgWait(a[0].(*value)) })
	reg("sync.NewCond", func(fr *frame, a []value) value { return fr.i.newCond(fr, a[0]) })
	reg("(*sync.Cond).Wait", func(fr *frame, a []value) value { return fr.i.condWait(fr, a[0].(*value)) })
	reg("(*sync.Cond).Signal", func(fr *frame, a []value) value { return fr.i.condSignal(a[0].(*value), false) })
	reg("(*sync.Cond).Broadcast", func(fr *frame, a []value) value { return fr.i.condSignal(a[0].(*value), true) })
	for _, w := range []string{"Int32", "Int64", "Uint32", "Uint64", "Uintptr"} {
		w := w
		reg("sync/atomic.Add"+w, func(fr *frame, a []value) value {
			i := fr.i
			p := a[0].(*value)
			i.atomicPoint(p)
			nv := i.binop(tokenADD, typeOfValue(*p), *p, a[1])
			i.setCell(p, nv)
			return nv
		})
		reg("sync/atomic.Load"+w, func(fr *frame, a []value) value {
			p := a[0].(*value)
			fr.i.atomicPoint(p)
			return *p
		})
		reg("sync/atomic.Store"+w, func(fr *frame, a []value) value {
			p := a[0].(*value)
			fr.i.atomicPoint(p)
			fr.i.setCell(p, a[1])
			return nil
		})
		reg("sync/atomic.CompareAndSwap"+w, func(fr *frame, a []value) value {
			i := fr.i
			p := a[0].(*value)
			i.atomicPoint(p)
			eq := i.equals(typeOfValue(*p), *p, a[1])
			if (&frame{i: i}).condBool(eq) {
				i.setCell(p, a[2])
				return true
			}
			return false
		})
	}
}

func fmtKey(v value) string {
	if s, ok := v.(string); ok {
		return s
	}
	return "<symbolic format>"
}

func typeString(t types.Type) string {
	return types.TypeString(t, func(p *types.Package) string { return p.Name() })
}

// newError builds an opaque non-nil error by interpreting errors.New.
func (i *interpreter) newError(msg string) value {
	fn := i.sh.prog.ImportedPackage("errors").Func("New")
	return i.callSSA(nil, 0, fn, []value{msg}, nil)
}

func (i *interpreter) fpRound(mode string, x value) value {
	if f, ok := x.(float64); ok {
		switch mode {
		case "RTN":
			return math.Floor(f)
		case "RTP":
			return math.Ceil(f)
		default:
			return math.Trunc(f)
		}
	}
	return i.fromTerm(i.st.FPRound(mode, i.term(x)), types.Float64)
}

// floatBits returns a BV64 whose to_fp is f (for a float variable: its underlying bits).
func (i *interpreter) floatBits(f *smt.Term) *smt.Term {
	st := i.st
	if f.IsConst() {
		return st.Const(smt.BV(64), f.Val)
	}
	if f.Op == "((_ to_fp 11 53)" && len(f.Args) == 1 && f.Args[0].S == smt.BV(64) {
		return f.Args[0]
	}
	// fresh bits constrained to denote f (one variable per term and path)
	if b, ok := i.fbitsMemo[f.ID]; ok {
		return b
	}
	b := st.Var(smt.BV(64), "fbits")
	i.solver.Assert(st, st.Eq(st.FPFromBits(b), f))
	if i.fbitsMemo == nil {
		i.fbitsMemo = map[int]*smt.Term{}
	}
	i.fbitsMemo[f.ID] = b
	return b
}

func (i *interpreter) indexByte(bs []value, c value) value {
	for k, b := range bs {
		eq := i.equals(nil, b, c)
		if (&frame{i: i}).condBool(eq) {
			return k
		}
	}
	return -1
}

func (i *interpreter) countByte(bs []value, c value) value {
	n := 0
	for _, b := range bs {
		eq := i.equals(nil, b, c)
		if (&frame{i: i}).condBool(eq) {
			n++
		}
	}
	return n
}

func (i *interpreter) compareBytes(a, b []value) value {
	fr := &frame{i: i}
	if fr.condBool(i.strEq(symstr{a}, symstr{b})) {
		return 0
	}
	if fr.condBool(i.strLess(symstr{a}, symstr{b})) {
		return -1
	}
	return 1
}

// writeTo writes s to an io.Writer / fmt.State guest value by calling its Write method.
func (i *interpreter) writeTo(fr *frame, w value, s value) value {
	wi := w.(iface)
	if wi.t == nil {
		i.guestPanic("invalid memory address or nil pointer dereference")
	}
	bs := strBytes(s)
	buf := make([]value, len(bs))
	copy(buf, bs)
	m := i.sh.findMethod(wi.t, "Write")
	if m == nil {
		panic(unsupported("writeTo: no Write method on " + wi.t.String()))
	}
	i.call(fr, 0, m, []value{wi.v, buf})
	return tuple{len(bs), iface{}}
}

var _ = strings.Join
var _ = fmt.Sprint
