package interp

import (
	"go/types"
	"strings"
)

// Capacity model for append and string->slice conversions.
//
// Default ("go" mode): the growth rule of the Go runtime in use (runtime.growslice,
// nextslicecap + size-class round-up on linux/amd64), so that counterexamples replay natively.
// In nondeterministic mode (harness called verifCapNondet) a growth performed by /repo code is
// a choice between "exact fit" and "spare capacity", covering every allocator the Go spec
// permits; native replay then confirms on the real allocator.

var sizeClasses = []int{0, 8, 16, 24, 32, 48, 64, 80, 96, 112, 128, 144, 160, 176, 192, 208, 224, 240, 256, 288, 320, 352, 384, 416, 448, 480, 512, 576, 640, 704, 768, 896, 1024, 1152, 1280, 1408, 1536, 1792, 2048, 2304, 2688, 3072, 3200, 3456, 4096, 4864, 5120, 5440, 6144, 6528, 6784, 6912, 8192, 9472, 9728, 10240, 10880, 12288, 13568, 14336, 16384, 18432, 19072, 20480, 21760, 24576, 27264, 28672, 32768}

func roundupsize(n int) int {
	for _, c := range sizeClasses {
		if c >= n {
			return c
		}
	}
	// large: page (8 KiB) multiple
	return (n + 8191) &^ 8191
}

func (i *interpreter) elemSize(t types.Type) int {
	if t == nil {
		return 8
	}
	defer func() { recover() }()
	return int(i.sh.sizes.Sizeof(t))
}

func (i *interpreter) growCap(oldCap, need int, tElt types.Type) int {
	if i.capNondet && i.curFr != nil && i.inRepo(i.curFr) {
		if i.freeChoice(2, "cap") == 0 {
			return need
		}
		return need*2 + 1
	}
	newcap := oldCap
	doublecap := newcap + newcap
	switch {
	case need > doublecap:
		newcap = need
	case oldCap < 256:
		newcap = doublecap
	default:
		for newcap < need {
			newcap += (newcap + 3*256) >> 2
		}
	}
	es := i.elemSize(tElt)
	if es <= 0 {
		return need
	}
	mem := roundupsize(newcap * es)
	c := mem / es
	if c < need {
		c = need
	}
	return c
}

func (i *interpreter) inRepo(fr *frame) bool {
	for f := fr; f != nil; f = f.caller {
		if f.fn == nil {
			continue
		}
		fn := f.fn
		for fn.Parent() != nil {
			fn = fn.Parent()
		}
		if fn.Pkg != nil {
			return strings.HasPrefix(fn.Pkg.Pkg.Path(), i.sh.modulePrefix)
		}
		if o := fn.Origin(); o != nil && o.Pkg != nil {
			return strings.HasPrefix(o.Pkg.Pkg.Path(), i.sh.modulePrefix)
		}
		return false
	}
	return false
}
