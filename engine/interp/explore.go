package interp

import (
	"fmt"
	"go/types"
	"os"
	"sort"
	"strings"
	"sync"
	"time"

	"golang.org/x/tools/go/ssa"

	"symgo/smt"
)

// Config are the bounds and switches of one exploration.
type Config struct {
	SolverCmd    []string
	QueryTimeout int // ms
	MaxSteps     int // instructions per path
	MaxPaths     int // feasible paths per harness
	MaxSymSize   int // largest size a symbolic make() may take
	Workers      int
	Verbose      bool
	Seed         int64
	DumpSMT      string // directory for SMT-LIB transcripts ("" = off)
	StopAtFirst  bool   // stop a harness after the first violation per label
	MaxViolPerLabel int
	Thorough     bool
	MaxPreemptions int // context bound of the cooperative scheduler
	MaxOrderDeviations int // iterations per path that may leave insertion order in order-free mode
}

// Shared is the read-only state shared by all workers.
type Shared struct {
	prog               *ssa.Program
	cfg                Config
	runtimeErrorString types.Type
	modulePrefix       string
	interpPkgs         map[string]bool
	mu                 sync.Mutex
	methodCache        sync.Map
	sizes              types.Sizes
	initOrder          []*ssa.Package
}

func (sh *Shared) lookupMethod(typ types.Type, meth *types.Func) *ssa.Function {
	return sh.prog.LookupMethod(typ, meth.Pkg(), meth.Name())
}

// decision record of one path
type decisionRec struct {
	choice int32
	n      int32 // arity
	forced bool
}

type workItem struct {
	prefix []decisionRec
}

// NondetRec is one harness-visible nondeterministic value (in call order).
type NondetRec struct {
	Kind string    `json:"k"` // int, int64, int32(rune), uint8(byte), bool, float64, choice
	Term *smt.Term `json:"-"`
	Val  uint64    `json:"v"` // filled from the model (choice: the chosen index)
	Hint string    `json:"hint,omitempty"`
}

// Violation is a counterexample found on one path.
type Violation struct {
	Harness string      `json:"harness"`
	Label   string      `json:"label"`
	Kind    string      `json:"kind"` // assert, panic, deadlock, race, nonterm
	Msg     string      `json:"msg"`
	Nondet  []NondetRec `json:"nondet"`
	UF      []smt.UFValue `json:"uf,omitempty"`
	Path    []int32     `json:"path"`
	Pos     string      `json:"pos,omitempty"`
	Known   string      `json:"known,omitempty"` // id of the known finding whose class contains it
}

// PathSample is a feasible path written to the evidence.
type PathSample struct {
	Decisions int         `json:"decisions"`
	Nondet    []NondetRec `json:"nondet"`
	Outcome   string      `json:"outcome"`
}

// Result of exploring one harness.
type Result struct {
	Harness      string
	Paths        int // feasible paths run to completion
	Decisions    int // symbolic branch decisions taken (transitions)
	AssertQ      int
	AssertUnsat  int
	AssertSat    int
	AssertConcTrue int
	FeasQ        int
	Unknown      int
	SolverTime   time.Duration
	Wall         time.Duration
	Incomplete   []string // reasons (deduplicated, with counts)
	incompleteN  map[string]int
	AssumeEnds   int
	Violations   []*Violation
	Covers       map[string]int
	Funcs        map[string]int // /repo functions executed -> calls
	Models       map[string]int // intrinsics / models touched
	PanicSites   map[string]int
	Samples      []PathSample
	KnownHits    map[string]int // known-finding id -> paths on which its class was satisfiable and violated
	InitPoison   []string
	SolverErrors int
	LastSolverError string
	Steps        int64
	PathBudgetHit bool
	violPerLabel map[string]int
}

type interpreter struct {
	sh      *Shared
	globals map[*ssa.Global]*value
	st      *smt.Store
	solver  *smt.Solver

	// path state
	prefix   []decisionRec
	pos      int
	trace    []decisionRec
	journal  []undoRec
	journalOn bool
	steps    int
	maxSteps int
	depth    int
	nondets  []NondetRec
	mapIDs   int
	memo    map[string]memoEntry // verifMemo results, per worker, across paths
	randCtr int32 // deterministic stand-in for math/rand (unique tokens)
	orderFree bool
	extraDepth int // additional call depth allowed inside verifMemo
	shadows   []shadowRec // verifShadow registrations, per path
	syncMaps map[*value]*[]smEntry // sync.Map model state, per path
	fbitsMemo map[int]*smt.Term // float term -> its bit-vector variable, per path
	orderBudget0 int // budget at the time order-free mode was switched on
	orderBudget int // iterations that may still leave insertion order (deviation bounding)
	capNondet bool
	inPlaceAppends int
	initPoison []string
	pathCovers []string
	pathFuncs  map[string]int
	pathModels map[string]int
	pathPanicSites []string
	pendingKnown []knownRec
	queuedFromPath []workItem

	curFr *frame
	syncTab *syncTables
	pendingGoroutinePanic string
	onceInit map[*value]bool
	inInit bool
	race  *raceDetector
	sched *scheduler

	ex *exploration
	initDone map[*ssa.Package]bool
	harnessPkg *ssa.Package
}

type knownRec struct {
	id   string
	cond *smt.Term
}

// exploration is the shared driver state for one harness.
type exploration struct {
	sh     *Shared
	fn     *ssa.Function
	mu     sync.Mutex
	cond   *sync.Cond
	queue  []workItem
	local  [][]workItem // per-worker LIFO queues; idle workers steal the oldest item of the longest one
	active int
	res    *Result
	stop   bool
	initReported bool
}

func (i *interpreter) globalAddr(g *ssa.Global) *value {
	// lazily allocate storage for globals of packages whose init was not run
	cell := zero(deref(g.Type()))
	p := &cell
	i.globals[g] = p
	return p
}

// ---- decisions ----

// decide forks on a symbolic condition.
func (i *interpreter) decide(c *smt.Term) bool {
	if c.IsConst() {
		return c.Val == 1
	}
	if i.sched != nil && i.sched.inAtomic > 0 {
		// decisions are allowed anywhere; nothing special
	}
	st := i.st
	if i.pos < len(i.prefix) {
		d := i.prefix[i.pos]
		i.pos++
		i.trace = append(i.trace, d)
		if d.n != 2 {
			panic(engineError{err: fmt.Sprintf("replay mismatch: expected arity %d, got 2-way decision", d.n)})
		}
		if d.choice == 1 {
			if !d.forced {
				i.solver.Assert(st, c)
			}
			return true
		}
		if !d.forced {
			i.solver.Assert(st, st.Not(c))
		}
		return false
	}
	res := i.ex.res
	r1, _ := i.solver.Check(st, c, false)
	i.countFeas(r1)
	if r1 == smt.Unsat {
		i.trace = append(i.trace, decisionRec{choice: 0, n: 2, forced: true})
		i.pos++
		return false
	}
	r2, _ := i.solver.Check(st, st.Not(c), false)
	i.countFeas(r2)
	_ = res
	if r2 == smt.Unsat {
		i.trace = append(i.trace, decisionRec{choice: 1, n: 2, forced: true})
		i.pos++
		return true
	}
	// both (possibly) feasible: take true now, queue false
	alt := make([]decisionRec, len(i.trace)+1)
	copy(alt, i.trace)
	alt[len(i.trace)] = decisionRec{choice: 0, n: 2}
	i.queuedFromPath = append(i.queuedFromPath, workItem{prefix: alt})
	i.trace = append(i.trace, decisionRec{choice: 1, n: 2})
	i.pos++
	i.solver.Assert(st, c)
	return true
}

func (i *interpreter) countFeas(r smt.Result) {
	i.ex.mu.Lock()
	i.ex.res.FeasQ++
	if r == smt.Unknown {
		i.ex.res.Unknown++
	}
	i.ex.mu.Unlock()
}

// chooseN forks over n alternatives with the given constraints (all must be non-nil; they need
// not be exhaustive: -1 is returned when none is feasible).
func (i *interpreter) chooseN(conds []*smt.Term) int {
	st := i.st
	n := int32(len(conds))
	if i.pos < len(i.prefix) {
		d := i.prefix[i.pos]
		i.pos++
		i.trace = append(i.trace, d)
		if d.n != n {
			panic(engineError{err: fmt.Sprintf("replay mismatch: expected arity %d, got %d-way decision", d.n, n)})
		}
		if d.choice >= 0 && !d.forced {
			i.solver.Assert(st, conds[d.choice])
		}
		return int(d.choice)
	}
	var feas []int32
	for k, c := range conds {
		if c.IsConst() {
			if c.Val == 1 {
				feas = append(feas, int32(k))
			}
			continue
		}
		r, _ := i.solver.Check(st, c, false)
		i.countFeas(r)
		if r != smt.Unsat {
			feas = append(feas, int32(k))
		}
	}
	if len(feas) == 0 {
		i.trace = append(i.trace, decisionRec{choice: -1, n: n, forced: true})
		i.pos++
		return -1
	}
	for _, k := range feas[1:] {
		alt := make([]decisionRec, len(i.trace)+1)
		copy(alt, i.trace)
		alt[len(i.trace)] = decisionRec{choice: k, n: n}
		i.queuedFromPath = append(i.queuedFromPath, workItem{prefix: alt})
	}
	first := feas[0]
	i.trace = append(i.trace, decisionRec{choice: first, n: n, forced: len(feas) == 1 && false})
	i.pos++
	if !conds[first].IsConst() {
		i.solver.Assert(st, conds[first])
	}
	return int(first)
}

// chooseIndex forks idx over 0..n-1 and "out of range" (returned as -1).
func (i *interpreter) chooseIndex(idx *smt.Term, n int) int {
	st := i.st
	conds := make([]*smt.Term, n+1)
	limit := uint64(1) << 63
	if idx.S.W < 64 {
		limit = uint64(1) << uint(idx.S.W)
	}
	for k := 0; k < n; k++ {
		if uint64(k) >= limit {
			conds[k] = st.Bool(false)
			continue
		}
		conds[k] = st.Eq(idx, st.Const(idx.S, uint64(k)))
	}
	if uint64(n) >= limit {
		conds[n] = st.Bool(false) // the index type cannot reach n
	} else {
		conds[n] = st.BVCmp("bvuge", idx, st.Const(idx.S, uint64(n)))
	}
	k := i.chooseN(conds)
	if k == n || k < 0 {
		return -1
	}
	return k
}

// freeChoice is an unconstrained n-way choice (harness Choice, iteration order, schedule).
func (i *interpreter) freeChoice(n int, hint string) int {
	if n <= 1 {
		return 0
	}
	if i.pos < len(i.prefix) {
		d := i.prefix[i.pos]
		i.pos++
		i.trace = append(i.trace, d)
		if d.n != int32(n) {
			panic(engineError{err: fmt.Sprintf("replay mismatch: expected arity %d, got free %d-way choice (%s)", d.n, n, hint)})
		}
		return int(d.choice)
	}
	for k := 1; k < n; k++ {
		alt := make([]decisionRec, len(i.trace)+1)
		copy(alt, i.trace)
		alt[len(i.trace)] = decisionRec{choice: int32(k), n: int32(n)}
		i.queuedFromPath = append(i.queuedFromPath, workItem{prefix: alt})
	}
	i.trace = append(i.trace, decisionRec{choice: 0, n: int32(n)})
	i.pos++
	return 0
}

// ---- exploring a harness ----

// Explore runs harness fn over all feasible paths within the configured bounds.
func (sh *Shared) Explore(fn *ssa.Function) *Result {
	res := &Result{
		Harness: fn.Name(), Covers: map[string]int{}, Funcs: map[string]int{}, Models: map[string]int{},
		PanicSites: map[string]int{}, KnownHits: map[string]int{}, incompleteN: map[string]int{}, violPerLabel: map[string]int{},
	}
	ex := &exploration{sh: sh, fn: fn, res: res}
	ex.cond = sync.NewCond(&ex.mu)
	ex.queue = []workItem{{}}
	t0 := time.Now()
	var wg sync.WaitGroup
	nw := sh.cfg.Workers
	if nw < 1 {
		nw = 1
	}
	ex.local = make([][]workItem, nw)
	for w := 0; w < nw; w++ {
		wg.Add(1)
		go func(w int) {
			defer wg.Done()
			ex.worker(w)
		}(w)
	}
	wg.Wait()
	res.Wall = time.Since(t0)
	for k, n := range res.incompleteN {
		res.Incomplete = append(res.Incomplete, fmt.Sprintf("%s (x%d)", k, n))
	}
	sort.Strings(res.Incomplete)
	return res
}

func (ex *exploration) take(w int) (workItem, bool) {
	ex.mu.Lock()
	defer ex.mu.Unlock()
	for {
		if ex.stop {
			return workItem{}, false
		}
		if n := len(ex.local[w]); n > 0 {
			it := ex.local[w][n-1]
			ex.local[w] = ex.local[w][:n-1]
			ex.active++
			return it, true
		}
		if n := len(ex.queue); n > 0 {
			it := ex.queue[n-1]
			ex.queue = ex.queue[:n-1]
			ex.active++
			return it, true
		}
		// steal: the oldest item (shallowest prefix, largest subtree) of the longest queue, so
		// that the paths sharing a prefix - and the memoised computations they share - stay
		// with one worker
		victim, best := -1, 0
		for v, q := range ex.local {
			if len(q) > best {
				victim, best = v, len(q)
			}
		}
		if victim >= 0 {
			it := ex.local[victim][0]
			ex.local[victim] = ex.local[victim][1:]
			ex.active++
			return it, true
		}
		if ex.active == 0 {
			ex.cond.Broadcast()
			return workItem{}, false
		}
		ex.cond.Wait()
	}
}

func (ex *exploration) done(w int, newItems []workItem) {
	ex.mu.Lock()
	ex.local[w] = append(ex.local[w], newItems...)
	ex.active--
	ex.cond.Broadcast()
	ex.mu.Unlock()
}

func (ex *exploration) worker(w int) {
	sh := ex.sh
	i := &interpreter{
		sh:       sh,
		globals:  map[*ssa.Global]*value{},
		st:       smt.NewStore(),
		maxSteps: sh.cfg.MaxSteps,
		ex:       ex,
		initDone: map[*ssa.Package]bool{},
		harnessPkg: ex.fn.Pkg,
	}
	i.solver = smt.NewSolver(sh.cfg.SolverCmd, sh.cfg.QueryTimeout)
	if sh.cfg.DumpSMT != "" {
		f, err := os.Create(fmt.Sprintf("%s/%s.w%d.smt2", sh.cfg.DumpSMT, ex.fn.Name(), w))
		if err == nil {
			defer f.Close()
			i.solver.Log = f
		}
	}
	defer i.solver.Close()
	inited := false
	for {
		it, ok := ex.take(w)
		if !ok {
			break
		}
		if !inited {
			i.runInits()
			inited = true
			ex.mu.Lock()
			if !ex.initReported {
				ex.initReported = true
				ex.res.InitPoison = append(ex.res.InitPoison, i.initPoison...)
			}
			ex.mu.Unlock()
		}
		newItems := i.runPath(it)
		ex.done(w, newItems)
	}
	ex.mu.Lock()
	ex.res.SolverTime += i.solver.Time
	ex.res.SolverErrors += i.solver.Errors
	if i.solver.LastError != "" {
		ex.res.LastSolverError = i.solver.LastError
	}
	ex.mu.Unlock()
}

// runInits runs the package initialisers the harness depends on, in tolerant mode.
func (i *interpreter) runInits() {
	i.st.Reset()
	i.journalOn = false
	i.inInit = true
	i.onceInit = map[*value]bool{}
	i.pathFuncs = map[string]int{}
	i.pathModels = map[string]int{}
	defer func() { i.inInit = false; i.syncTab = nil }()
	i.maxSteps = 200_000_000
	i.steps = 0
	i.ex0()
	for _, pkg := range i.sh.initOrder {
		i.initPackage(pkg)
	}
	i.maxSteps = i.sh.cfg.MaxSteps
}

func (i *interpreter) ex0() {}

func (i *interpreter) initPackage(pkg *ssa.Package) {
	if i.initDone[pkg] {
		return
	}
	i.initDone[pkg] = true
	for _, m := range pkg.Members {
		if g, ok := m.(*ssa.Global); ok {
			if _, ok := i.globals[g]; !ok {
				cell := zero(deref(g.Type()))
				i.globals[g] = &cell
			}
		}
	}
	// mark as initialised so that the init function of dependants does not re-enter
	if g, ok := pkg.Members["init$guard"].(*ssa.Global); ok {
		*i.globals[g] = true
	}
	if !i.sh.interpPkgs[pkg.Pkg.Path()] {
		return
	}
	initFn := pkg.Func("init")
	if initFn == nil || initFn.Blocks == nil {
		return
	}
	// run the body in tolerant mode, skipping the guard check
	*i.globals[pkg.Members["init$guard"].(*ssa.Global)] = false
	func() {
		defer func() {
			if r := recover(); r != nil {
				i.initPoison = append(i.initPoison, fmt.Sprintf("init of %s aborted: %v", pkg.Pkg.Path(), describePanic(r)))
			}
		}()
		fr := &frame{i: i, fn: initFn, tolerant: true}
		fr.env = make(map[ssa.Value]value)
		fr.block = initFn.Blocks[0]
		fr.locals = make([]value, len(initFn.Locals))
		for k, l := range initFn.Locals {
			fr.locals[k] = zero(deref(l.Type()))
			fr.env[l] = &fr.locals[k]
		}
		for fr.block != nil {
			runFrame(fr)
		}
	}()
	*i.globals[pkg.Members["init$guard"].(*ssa.Global)] = true
}

func describePanic(r interface{}) string {
	switch r := r.(type) {
	case targetPanic:
		return "guest panic: " + toString(r.v)
	case unsupportedErr:
		return "unsupported: " + r.msg
	case engineError:
		return fmt.Sprintf("engine error: %v\n%s", r.err, r.stack)
	case pathAbort:
		return r.kind + ": " + r.msg
	}
	return fmt.Sprint(r)
}

// runPath executes the harness once along the given decision prefix and returns the newly
// discovered alternative prefixes.
func (i *interpreter) runPath(it workItem) (newItems []workItem) {
	ex := i.ex
	res := ex.res
	i.st.Reset()
	if err := i.solver.Begin(); err != nil {
		ex.mu.Lock()
		res.incompleteN["solver start failed: "+err.Error()]++
		ex.mu.Unlock()
		return nil
	}
	i.prefix = it.prefix
	i.pos = 0
	i.trace = i.trace[:0]
	i.steps = 0
	i.depth = 0
	i.nondets = i.nondets[:0]
	i.orderFree = false
	i.orderBudget = 0
	i.fbitsMemo = nil
	i.randCtr = 1 << 20
	i.capNondet = false
	i.inPlaceAppends = 0
	i.pathCovers = i.pathCovers[:0]
	i.pathFuncs = map[string]int{}
	i.pathModels = map[string]int{}
	i.pathPanicSites = i.pathPanicSites[:0]
	i.pendingKnown = i.pendingKnown[:0]
	i.queuedFromPath = nil
	i.journalOn = true
	i.race = nil
	i.sched = nil
	i.syncTab = nil
	i.shadows = nil
	i.syncMaps = nil

	outcome := "ok"
	var incomplete string
	func() {
		defer func() {
			r := recover()
			if r == nil {
				return
			}
			switch r := r.(type) {
			case pathAbort:
				switch r.kind {
				case "assume":
					outcome = "assume-false"
				case "violation":
					outcome = "violation"
				case "incomplete":
					outcome = "incomplete"
					incomplete = r.msg
				default:
					outcome = r.kind
				}
			case unsupportedErr:
				outcome = "incomplete"
				incomplete = "unsupported: " + r.msg
			case engineError:
				outcome = "incomplete"
				incomplete = fmt.Sprintf("engine error: %v", r.err)
				if i.sh.cfg.Verbose {
					fmt.Fprintf(os.Stderr, "engine error: %v\n%s\n", r.err, r.stack)
				}
			case targetPanic:
				// a guest panic escaped the harness entry: always a finding of kind panic
				outcome = "violation"
				i.reportViolation("escaped-panic", "panic", "panic escaped harness: "+toString(r.v), nil)
			default:
				outcome = "incomplete"
				incomplete = fmt.Sprintf("engine panic: %v", r)
			}
		}()
		i.runHarness(ex.fn)
	}()
	if i.pendingGoroutinePanic != "" {
		i.reportViolation("escaped-panic", "panic", i.pendingGoroutinePanic, nil)
		i.pendingGoroutinePanic = ""
	}
	if i.sched != nil {
		i.sched.killAll()
		i.sched = nil
	}
	i.rollback()
	i.journalOn = false

	ex.mu.Lock()
	defer ex.mu.Unlock()
	res.Steps += int64(i.steps)
	for k, n := range i.pathFuncs {
		res.Funcs[k] += n
	}
	for k, n := range i.pathModels {
		res.Models[k] += n
	}
	for _, s := range i.pathPanicSites {
		res.PanicSites[s]++
	}
	switch outcome {
	case "assume-false":
		res.AssumeEnds++
		// decisions discovered before the assume still lead to feasible siblings
	case "incomplete":
		res.incompleteN[trimReason(incomplete)]++
		if os.Getenv("SYMGO_DEBUG_INCOMPLETE") != "" {
			var vals []uint64
			for _, n := range i.nondets {
				vals = append(vals, n.Val)
			}
			fmt.Fprintf(os.Stderr, "INCOMPLETE-PATH %s: %s nondet=%v\n", ex.fn.Name(), trimReason(incomplete), vals)
		}
		res.Paths++
	default:
		res.Paths++
		for _, c := range i.pathCovers {
			res.Covers[c]++
		}
	}
	nd := 0
	for _, d := range i.trace {
		if !d.forced {
			nd++
		}
	}
	res.Decisions += nd
	if len(res.Samples) < 12 && outcome != "assume-false" && (res.Paths%7 == 1 || len(res.Samples) < 3) {
		res.Samples = append(res.Samples, PathSample{Decisions: len(i.trace), Nondet: i.sampleNondets(), Outcome: outcome})
	}
	if i.sh.cfg.MaxPaths > 0 && res.Paths >= i.sh.cfg.MaxPaths && !ex.stop {
		ex.stop = true
		res.PathBudgetHit = true
		res.incompleteN[fmt.Sprintf("path budget %d exhausted", i.sh.cfg.MaxPaths)]++
		ex.cond.Broadcast()
	}
	return i.queuedFromPath
}

func trimReason(s string) string {
	if k := strings.Index(s, "\n"); k >= 0 {
		s = s[:k]
	}
	if len(s) > 300 {
		s = s[:300]
	}
	return s
}

func (i *interpreter) sampleNondets() []NondetRec {
	out := make([]NondetRec, len(i.nondets))
	copy(out, i.nondets)
	for k := range out {
		if out[k].Term != nil && !out[k].Term.IsConst() {
			out[k].Hint = "symbolic"
		}
	}
	return out
}

func (i *interpreter) runHarness(fn *ssa.Function) {
	i.callSSA(nil, fn.Pos(), fn, nil, nil)
	if i.sched != nil {
		i.sched.finishMain()
	}
}

// ---- bookkeeping hooks ----

func (i *interpreter) noteFunc(fn *ssa.Function) {
	if fn.Pkg != nil && strings.HasPrefix(fn.Pkg.Pkg.Path(), i.sh.modulePrefix) || (fn.Pkg == nil && strings.Contains(fn.String(), i.sh.modulePrefix)) {
		name := fn.String()
		if !strings.Contains(name, "verif") && !strings.Contains(name, "Verif") {
			i.pathFuncs[name]++
		}
	}
}

func (i *interpreter) noteModel(fn *ssa.Function) {
	name := fn.String()
	if o := fn.Origin(); o != nil {
		name = o.String()
	}
	if strings.Contains(name, ".verif") {
		return
	}
	i.pathModels[name]++
}

func (i *interpreter) notePanicSite(fr *frame) {}

// notePanicRaised records the source position at which a guest panic is raised.
func (i *interpreter) notePanicRaised() {
	if i.pathFuncs == nil || i.curFr == nil {
		return
	}
	fr := i.curFr
	i.pathPanicSites = append(i.pathPanicSites, fr.posString(fr.curPos())+" in "+fr.fn.String())
}

// ---- violations ----

func (i *interpreter) modelNow() (*smt.Model, smt.Result) {
	r, m := i.solver.Check(i.st, nil, true)
	return m, r
}

// reportViolation records a counterexample for the current path; extra (may be nil) is the
// additional constraint under which it occurs.
func (i *interpreter) reportViolation(label, kind, msg string, extra *smt.Term) {
	// violations raised by the executor itself (escaped panic, deadlock, race): attribute them to
	// a declared known-finding class whose condition holds on this path
	known := ""
	for _, k := range i.pendingKnown {
		parts := strings.SplitN(k.id, "\x00", 2)
		if (parts[1] == label || parts[1] == "*") && k.cond.IsConst() && k.cond.Val == 1 {
			known = parts[0]
			break
		}
	}
	i.reportViolationK(label, kind, msg, extra, known)
}

func (i *interpreter) reportViolationK(label, kind, msg string, extra *smt.Term, known string) {
	ex := i.ex
	r, m := i.solver.Check(i.st, extra, true)
	if r != smt.Sat {
		ex.mu.Lock()
		ex.res.incompleteN[fmt.Sprintf("no model for violation %q (%s)", label, r)]++
		ex.mu.Unlock()
		return
	}
	v := &Violation{Harness: ex.fn.Name(), Label: label, Kind: kind, Msg: msg}
	for _, nd := range i.nondets {
		rec := nd
		if nd.Term != nil {
			rec.Val = evalTerm(nd.Term, m)
		}
		rec.Term = nil
		v.Nondet = append(v.Nondet, rec)
	}
	v.UF = m.UF
	for _, d := range i.trace {
		v.Path = append(v.Path, d.choice)
	}
	v.Known = known
	ex.mu.Lock()
	defer ex.mu.Unlock()
	if v.Known != "" {
		ex.res.KnownHits[v.Known]++
	}
	key := label + "|" + v.Known
	ex.res.violPerLabel[key]++
	max := i.sh.cfg.MaxViolPerLabel
	if max == 0 {
		max = 3
	}
	if ex.res.violPerLabel[key] <= max {
		ex.res.Violations = append(ex.res.Violations, v)
	}
}

// CheckInit runs the initialisers once and reports poisoned initialisers (diagnostics).
func (sh *Shared) CheckInit(pkg *ssa.Package) []string {
	ex := &exploration{sh: sh, res: &Result{incompleteN: map[string]int{}}}
	i := &interpreter{sh: sh, globals: map[*ssa.Global]*value{}, st: smt.NewStore(), maxSteps: sh.cfg.MaxSteps, ex: ex, initDone: map[*ssa.Package]bool{}}
	i.pathFuncs = map[string]int{}
	i.pathModels = map[string]int{}
	i.runInits()
	return i.initPoison
}
