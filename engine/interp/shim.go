package interp

import "fmt"

// SymShim returns the body-less declarations of the harness API for package pkg (symbolic mode).
func SymShim(pkg string) []byte {
	return []byte(fmt.Sprintf(`package %s

func verifNondetInt() int
func verifNondetInt64() int64
func verifNondetRune() rune
func verifNondetByte() byte
func verifNondetBool() bool
func verifNondetFloat64() float64
func verifNondetIntIn(lo, hi int) int
func verifChoice(n int) int
func verifAssume(c bool)
func verifAssert(label string, c bool)
func verifCover(label string)
func verifTry(f func()) bool
func verifMemo(key string, f func() interface{}) interface{}
func verifAnd(a, b bool) bool
func verifOr(a, b bool) bool
func verifNot(a bool) bool
func verifIte(c bool, a, b int) int
func verifIteF(c bool, a, b float64) float64
func verifIteB(c bool, a, b bool) bool
func verifUF1(name string, x int) int
func verifUF2(name string, x, y int) int
func verifKnown(id, label string, cond bool)
func verifOrderFree()
func verifOutput(s string)
func verifOrderFreeN(n int)
func verifThorough() bool
func verifShadow(sym, twin string) string
func verifOrderInsertion()
func verifOrderDeviations() int
func verifCapNondet()
func verifPrint(label string, v interface{})
func verifSymbolic() bool
func verifInPlaceAppends() int
func verifConcretize(x, lo, hi int) int
func verifIsNaN(f float64) bool
func verifRaceDetect()
func verifGo(f func())
func verifYield()
`, pkg))
}

// NativeShim returns the native definitions of the harness API (replay mode): nondeterministic
// values are popped from the replay vector.
func NativeShim(pkg string) []byte {
	return []byte(fmt.Sprintf(`package %s

import (
	"encoding/json"
	"fmt"
	"math"
	"os"
	"time"
)

type verifRec struct {
	K string `+"`json:\"k\"`"+`
	V uint64 `+"`json:\"v\"`"+`
}

type verifUFVal struct {
	Name string
	Args []uint64
	Res  uint64
}

type verifReplayFile struct {
	Harness string       `+"`json:\"harness\"`"+`
	Label   string       `+"`json:\"label\"`"+`
	Nondet  []verifRec   `+"`json:\"nondet\"`"+`
	UF      []verifUFVal `+"`json:\"uf\"`"+`
}

type verifAssumeFailed struct{}
type verifExhausted struct{}

var (
	verifVec     []verifRec
	verifPos     int
	verifUFs     []verifUFVal
	verifFailed  []string
	verifCovers  []string
	verifOutputs []string
	verifKnownOK = map[string]bool{}
)

func verifLoad(path string) (*verifReplayFile, error) {
	b, err := os.ReadFile(path)
	if err != nil {
		return nil, err
	}
	var f verifReplayFile
	if err := json.Unmarshal(b, &f); err != nil {
		return nil, err
	}
	verifVec, verifPos, verifUFs, verifFailed, verifCovers, verifOutputs = f.Nondet, 0, f.UF, nil, nil, nil
	return &f, nil
}

func verifPop(kind string) uint64 {
	if verifPos >= len(verifVec) {
		panic(verifExhausted{})
	}
	r := verifVec[verifPos]
	verifPos++
	return r.V
}

func verifNondetInt() int         { return int(int64(verifPop("int"))) }
func verifNondetInt64() int64     { return int64(verifPop("int64")) }
func verifNondetRune() rune       { return rune(int32(uint32(verifPop("int32")))) }
func verifNondetByte() byte       { return byte(verifPop("uint8")) }
func verifNondetBool() bool       { return verifPop("bool") != 0 }
func verifNondetFloat64() float64 { return math.Float64frombits(verifPop("float64")) }
func verifNondetIntIn(lo, hi int) int {
	v := int(int64(verifPop("int")))
	if v < lo || v > hi {
		panic(verifAssumeFailed{})
	}
	return v
}
func verifChoice(n int) int {
	v := int(verifPop("choice"))
	if v >= n {
		panic(verifAssumeFailed{})
	}
	return v
}
func verifAssume(c bool) {
	if !c {
		panic(verifAssumeFailed{})
	}
}
func verifAssert(label string, c bool) {
	if !c {
		verifFailed = append(verifFailed, label)
	}
}
func verifCover(label string) { verifCovers = append(verifCovers, label) }
func verifMemo(key string, f func() interface{}) interface{} { return f() }

func verifTry(f func()) (p bool) {
	defer func() {
		if r := recover(); r != nil {
			switch r.(type) {
			case verifAssumeFailed, verifExhausted:
				panic(r)
			}
			p = true
		}
	}()
	f()
	return false
}
func verifAnd(a, b bool) bool { return a && b }
func verifOr(a, b bool) bool  { return a || b }
func verifNot(a bool) bool    { return !a }
func verifIte(c bool, a, b int) int {
	if c {
		return a
	}
	return b
}
func verifIteF(c bool, a, b float64) float64 {
	if c {
		return a
	}
	return b
}
func verifIteB(c bool, a, b bool) bool {
	if c {
		return a
	}
	return b
}
func verifUFLookup(name string, args ...uint64) int {
	name = "uf_" + name
outer:
	for _, u := range verifUFs {
		if u.Name != name || len(u.Args) != len(args) {
			continue
		}
		for i := range args {
			if u.Args[i] != args[i] {
				continue outer
			}
		}
		return int(int64(u.Res))
	}
	return 0
}
func verifUF1(name string, x int) int    { return verifUFLookup(name, uint64(x)) }
func verifUF2(name string, x, y int) int { return verifUFLookup(name, uint64(x), uint64(y)) }
func verifKnown(id, label string, cond bool) {}
func verifOrderFree()                       {}
func verifOrderDeviations() int            { return 0 }
func verifOrderInsertion()                 {}
func verifOrderFreeN(n int)                {}
func verifThorough() bool                  { return verifPop("choice") == 1 }
func verifShadow(sym, twin string) string  { return sym }
func verifOutput(s string)                 { verifOutputs = append(verifOutputs, s) }
func verifCapNondet()                       {}
func verifPrint(label string, v interface{}) { fmt.Fprintf(os.Stderr, "[verifPrint] %%s: %%v\n", label, v) }
func verifSymbolic() bool                   { return false }
func verifInPlaceAppends() int              { return 0 }
func verifConcretize(x, lo, hi int) int {
	if x < lo || x > hi {
		panic(verifAssumeFailed{})
	}
	return x
}
func verifIsNaN(f float64) bool { return f != f }
func verifRaceDetect()         {}
func verifGo(f func())         { go f() }
func verifYield()              { time.Sleep(3 * time.Millisecond) } // lets other goroutines reach their blocking point
`, pkg))
}
