package interp

import "fmt"

// Happens-before race detector (FastTrack-style, simplified): every memory cell written or read
// while the detector is on remembers its last write epoch and the read epochs of each goroutine;
// an access that is not ordered after a conflicting earlier access by the vector clocks is a
// data race. Clocks advance at the synchronisation operations modelled in sched.go/syncmodel.go.

type cellAccess struct {
	wg, wclk int
	wsite    string
	reads    map[int]int
	rsites   map[int]string
}

type raceDetector struct {
	cells    map[*value]*cellAccess
	reported map[string]bool
}

func newRaceDetector() *raceDetector {
	return &raceDetector{cells: map[*value]*cellAccess{}, reported: map[string]bool{}}
}

func (r *raceDetector) site(i *interpreter) string {
	if i.curFr == nil {
		return "?"
	}
	fr := i.curFr
	return fr.posString(fr.curPos()) + " in " + fr.fn.String()
}

func hb(vc []int, g, clk int) bool {
	return g < len(vc) && vc[g] >= clk
}

func (r *raceDetector) access(i *interpreter, addr *value, write bool) {
	s := i.sched
	if s == nil || len(s.gs) < 2 || addr == nil {
		return
	}
	g := s.cur
	for len(g.vc) <= g.id {
		g.vc = append(g.vc, 0)
	}
	if g.vc[g.id] == 0 {
		g.vc[g.id] = 1
	}
	c := r.cells[addr]
	if c == nil {
		c = &cellAccess{wg: -1, reads: map[int]int{}, rsites: map[int]string{}}
		r.cells[addr] = c
	}
	here := ""
	report := func(kind string, otherSite string, og int) {
		if here == "" {
			here = r.site(i)
		}
		key := kind + "|" + here + "|" + otherSite
		if r.reported[key] {
			return
		}
		r.reported[key] = true
		i.reportViolation("data-race", "race", fmt.Sprintf("%s race: g%d at %s vs g%d at %s", kind, g.id, here, og, otherSite), nil)
	}
	if c.wg >= 0 && c.wg != g.id && !hb(g.vc, c.wg, c.wclk) {
		if write {
			report("write-write", c.wsite, c.wg)
		} else {
			report("read-write", c.wsite, c.wg)
		}
	}
	if write {
		for og, clk := range c.reads {
			if og != g.id && !hb(g.vc, og, clk) {
				report("write-read", c.rsites[og], og)
			}
		}
		c.wg, c.wclk = g.id, g.vc[g.id]
		c.wsite = r.site(i)
		c.reads = map[int]int{}
		c.rsites = map[int]string{}
	} else {
		c.reads[g.id] = g.vc[g.id]
		c.rsites[g.id] = r.site(i)
	}
}
