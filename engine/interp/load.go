package interp

import (
	"fmt"
	"go/types"
	"os"
	"path/filepath"
	"sort"
	"strings"

	"golang.org/x/tools/go/packages"
	"golang.org/x/tools/go/ssa"
	"golang.org/x/tools/go/ssa/ssautil"
)

// LoadOptions describe what to load.
type LoadOptions struct {
	RepoDir    string            // /repo
	Patterns   []string          // packages to load (relative to RepoDir), e.g. ./rel
	Overlay    map[string][]byte // virtual harness files (absolute paths inside RepoDir)
	ModelsDir  string            // /verif/engine/models
	ModulePath string            // github.com/arr-ai/arrai
}

// stdInterp lists the GOROOT packages that are interpreted from source.
var stdInterp = []string{
	"sort", "slices", "strings", "bytes", "unicode", "unicode/utf8", "unicode/utf16", "strconv", "errors",
	"path", "path/filepath", "math", "math/bits", "cmp", "bufio", "encoding/csv", "io", "iter", "maps",
	"internal/stringslite", "internal/itoa", "internal/oserror", "context", "container/list", "container/heap",
	"io/fs", "internal/filepathlite", "internal/bytealg", "encoding/hex", "encoding/binary", "time",
}

// extraInterp lists third-party packages interpreted from source.
var extraInterp = []string{
	"github.com/go-errors/errors", "github.com/pkg/errors", "github.com/arr-ai/frozen", "github.com/arr-ai/hash", "github.com/arr-ai/wbnf/parser", "github.com/spf13/afero",
	"github.com/arr-ai/wbnf/wbnf", "github.com/arr-ai/wbnf/ast", "github.com/arr-ai/wbnf/parser/diff", "github.com/arr-ai/wbnf/errors", "github.com/arr-ai/wbnf/gotree",
}

// Load builds the SSA program for the requested packages with the model overlays applied.
func Load(opt LoadOptions, cfg Config) (*Shared, []*ssa.Package, error) {
	overlay := map[string][]byte{}
	for k, v := range opt.Overlay {
		overlay[k] = v
	}
	// replace frozen and hash by their models
	env := append(os.Environ(), "GOFLAGS=-mod=mod", "GOPROXY=off", "GODEBUG=goindex=0")
	pcfg := &packages.Config{Mode: packages.NeedName | packages.NeedFiles | packages.NeedModule, Dir: opt.RepoDir, Env: env}
	mods, err := packages.Load(pcfg, "github.com/arr-ai/frozen", "github.com/arr-ai/hash")
	if err != nil {
		return nil, nil, fmt.Errorf("locating model targets: %w", err)
	}
	for _, p := range mods {
		if len(p.GoFiles) == 0 {
			return nil, nil, fmt.Errorf("cannot locate %s: %v", p.PkgPath, p.Errors)
		}
		dir := filepath.Dir(p.GoFiles[0])
		name := filepath.Base(p.PkgPath)
		model, err := os.ReadFile(filepath.Join(opt.ModelsDir, name, name+".go"))
		if err != nil {
			return nil, nil, err
		}
		ents, _ := os.ReadDir(dir)
		first := true
		for _, e := range ents {
			n := e.Name()
			if !strings.HasSuffix(n, ".go") || strings.HasSuffix(n, "_test.go") {
				if strings.HasSuffix(n, ".s") {
					overlay[filepath.Join(dir, n)] = []byte("")
				}
				continue
			}
			if first {
				overlay[filepath.Join(dir, n)] = model
				first = false
			} else {
				overlay[filepath.Join(dir, n)] = []byte("package " + name + "\n")
			}
		}
	}
	lcfg := &packages.Config{
		Mode:    packages.LoadAllSyntax,
		Dir:     opt.RepoDir,
		Env:     env,
		Overlay: overlay,
	}
	initial, err := packages.Load(lcfg, opt.Patterns...)
	if err != nil {
		return nil, nil, err
	}
	nerr := 0
	packages.Visit(initial, nil, func(p *packages.Package) {
		for _, e := range p.Errors {
			// body-less model/harness declarations are fine for go/types; report the rest
			if strings.Contains(e.Msg, "missing function body") {
				continue
			}
			if nerr < 20 {
				fmt.Fprintf(os.Stderr, "load error: %s: %v\n", p.PkgPath, e)
			}
			nerr++
		}
	})
	if nerr > 0 {
		return nil, nil, fmt.Errorf("%d package load errors", nerr)
	}
	prog, pkgs := ssautil.AllPackages(initial, ssa.InstantiateGenerics|ssa.SanityCheckFunctions*0)
	sh := &Shared{prog: prog, cfg: cfg, modulePrefix: opt.ModulePath, interpPkgs: map[string]bool{}}
	sh.sizes = types.SizesFor("gc", "amd64")
	for _, p := range stdInterp {
		sh.interpPkgs[p] = true
	}
	for _, p := range extraInterp {
		sh.interpPkgs[p] = true
	}
	for _, p := range prog.AllPackages() {
		if strings.HasPrefix(p.Pkg.Path(), opt.ModulePath) {
			sh.interpPkgs[p.Pkg.Path()] = true
		}
	}
	// build the bodies of every interpretable package
	var all []*ssa.Package
	for _, p := range prog.AllPackages() {
		all = append(all, p)
	}
	sort.Slice(all, func(a, b int) bool { return all[a].Pkg.Path() < all[b].Pkg.Path() })
	for _, p := range all {
		if sh.interpPkgs[p.Pkg.Path()] || p.Pkg.Path() == "runtime" || p.Pkg.Path() == "sync" || p.Pkg.Path() == "fmt" {
			p.Build()
		}
	}
	rt := prog.ImportedPackage("runtime")
	if rt == nil {
		return nil, nil, fmt.Errorf("runtime package not loaded")
	}
	sh.runtimeErrorString = rt.Type("errorString").Object().Type()
	// initialisation order: dependencies first, over the import graph of the initial packages
	seen := map[*types.Package]bool{}
	var visit func(p *types.Package)
	visit = func(p *types.Package) {
		if seen[p] {
			return
		}
		seen[p] = true
		imps := p.Imports()
		for _, q := range imps {
			visit(q)
		}
		if sp := prog.Package(p); sp != nil {
			sh.initOrder = append(sh.initOrder, sp)
		}
	}
	for _, p := range pkgs {
		if p != nil {
			visit(p.Pkg)
		}
	}
	return sh, pkgs, nil
}

func (sh *Shared) Prog() *ssa.Program { return sh.prog }

func (sh *Shared) SetConfig(c Config) { sh.cfg = c }
