package interp

// sync.Map model: an association list per map address (insertion ordered, keys compared with
// interface equality, which may be symbolic and then forks). Sequentially consistent; under the
// scheduler every operation is a yield point like the other sync primitives.

type smEntry struct{ k, v value }

func (i *interpreter) syncMap(p *value) *[]smEntry {
	if i.syncMaps == nil {
		i.syncMaps = map[*value]*[]smEntry{}
	}
	m := i.syncMaps[p]
	if m == nil {
		m = &[]smEntry{}
		i.syncMaps[p] = m
	}
	return m
}

func (i *interpreter) syncMapFind(fr *frame, m *[]smEntry, k value) int {
	for idx, e := range *m {
		if fr.condBool(i.equals(nil, e.k, k)) {
			return idx
		}
	}
	return -1
}

func init() {
	yield := func(fr *frame, what string) {
		if fr.i.sched != nil {
			fr.i.sched.yield(fr.i, what)
		}
	}
	reg("(*sync.Map).Load", func(fr *frame, a []value) value {
		yield(fr, "sync.Map.Load")
		m := fr.i.syncMap(a[0].(*value))
		if k := fr.i.syncMapFind(fr, m, a[1]); k >= 0 {
			return tuple{(*m)[k].v, true}
		}
		return tuple{iface{}, false}
	})
	reg("(*sync.Map).Store", func(fr *frame, a []value) value {
		yield(fr, "sync.Map.Store")
		m := fr.i.syncMap(a[0].(*value))
		if k := fr.i.syncMapFind(fr, m, a[1]); k >= 0 {
			n := append([]smEntry(nil), *m...)
			n[k].v = a[2]
			*m = n
			return nil
		}
		*m = append(append([]smEntry(nil), *m...), smEntry{a[1], a[2]})
		return nil
	})
	reg("(*sync.Map).LoadOrStore", func(fr *frame, a []value) value {
		yield(fr, "sync.Map.LoadOrStore")
		m := fr.i.syncMap(a[0].(*value))
		if k := fr.i.syncMapFind(fr, m, a[1]); k >= 0 {
			return tuple{(*m)[k].v, true}
		}
		*m = append(append([]smEntry(nil), *m...), smEntry{a[1], a[2]})
		return tuple{a[2], false}
	})
	reg("(*sync.Map).Delete", func(fr *frame, a []value) value {
		yield(fr, "sync.Map.Delete")
		m := fr.i.syncMap(a[0].(*value))
		if k := fr.i.syncMapFind(fr, m, a[1]); k >= 0 {
			n := append([]smEntry(nil), (*m)[:k]...)
			*m = append(n, (*m)[k+1:]...)
		}
		return nil
	})
}
