package interp

import (
	"math"
	"strconv"

	"symgo/smt"
)

// Binary math functions on symbolic operands that are exact small integers (i2f terms with a
// known range of at most 33 values): the operand is concretised by forking on its value and the
// function runs natively. Anything else marks the path incomplete.

func (i *interpreter) concretizeSmallFloat(v value, what string) float64 {
	switch x := v.(type) {
	case float64:
		return x
	case *sym:
		if n, ok := i.st.IsI2F(x.t); ok {
			if lo, hi, rok := i.st.RangeOf(n, true); rok && hi-lo <= 32 {
				var conds []*smt.Term
				for c := lo; c <= hi; c++ {
					conds = append(conds, i.st.Eq(n, i.st.Const(n.S, uint64(c))))
				}
				k := i.chooseN(conds)
				if k < 0 {
					panic(pathAbort{"assume", "concretize out of range"})
				}
				return float64(lo + int64(k))
			}
		}
	}
	panic(unsupported(what + " of symbolic floats"))
}

func init() {
	for name, f := range map[string]func(float64, float64) float64{"math.Pow": math.Pow, "math.Mod": math.Mod, "math.Atan2": math.Atan2} {
		name, f := name, f
		reg(name, func(fr *frame, a []value) value {
			x := fr.i.concretizeSmallFloat(a[0], name)
			y := fr.i.concretizeSmallFloat(a[1], name)
			return f(x, y)
		})
	}
}

func init() {
	// log/slog: logging is a no-op
	for _, n := range []string{"Debug", "Info", "Warn", "Error", "DebugContext", "InfoContext", "WarnContext", "ErrorContext", "Log"} {
		reg("log/slog."+n, func(fr *frame, a []value) value { return nil })
	}
}

func init() {
	// environment stub: a fixed working directory
	reg("os.Getwd", func(fr *frame, a []value) value { return tuple{"/work", iface{}} })
}

func init() {
	// printing a number: a symbolic operand that is an exact small integer (known range of at
	// most 33 values) is concretised by forking on its value; anything else is unsupported
	reg("strconv.FormatFloat", func(fr *frame, a []value) value {
		f := fr.i.concretizeSmallFloat(a[0], "strconv.FormatFloat")
		return strconv.FormatFloat(f, a[1].(uint8), int(asInt64(a[2])), int(asInt64(a[3])))
	})
	reg("strconv.AppendFloat", func(fr *frame, a []value) value {
		f := fr.i.concretizeSmallFloat(a[1], "strconv.AppendFloat")
		s := strconv.FormatFloat(f, a[2].(uint8), int(asInt64(a[3])), int(asInt64(a[4])))
		out := append([]value(nil), a[0].([]value)...)
		for k := 0; k < len(s); k++ {
			out = append(out, s[k])
		}
		return out
	})
}
