// Value representation of the symbolic executor. The concrete part follows
// golang.org/x/tools/go/ssa/interp (boxed values); scalars may additionally be symbolic
// SMT terms (*sym) and strings may carry symbolic bytes (symstr).
package interp

import (
	"bytes"
	"fmt"
	"go/types"
	"strings"

	"golang.org/x/tools/go/ssa"

	"symgo/smt"
)

type value interface{}

type tuple []value

type array []value

type structure []value

type iface struct {
	t types.Type // never an "untyped" type; nil for the nil interface
	v value
}

type closure struct {
	Fn  *ssa.Function
	Env []value
}

type bad struct{}

// poison marks a value the executor could not compute (unsupported initialiser, opaque
// external). Using it marks the path incomplete.
type poison struct{ why string }

// sym is a symbolic scalar (bool, integer of any width, float64).
type sym struct{ t *smt.Term }

// symstr is a string of concrete length whose bytes are uint8 or *sym (BV8).
type symstr struct{ b []value }

type rtype struct{ t types.Type }

// gomap is an insertion-ordered Go map whose key equality may be symbolic.
type gomap struct {
	keyType types.Type
	entries []*mapEntry
}

type mapEntry struct {
	key, val value
	id       int
}

// iter is the state of a range loop over a map or string.
type iter interface {
	next(i *interpreter) tuple
}

func deref(t types.Type) types.Type {
	if p, ok := t.Underlying().(*types.Pointer); ok {
		return p.Elem()
	}
	panic(fmt.Sprintf("deref: %v is not a pointer", t))
}

func sameType(x, y types.Type) bool {
	if x == nil {
		return y == nil
	}
	return y != nil && types.Identical(x, y)
}

// load returns the value of type T in *addr (copying aggregates).
func load(T types.Type, addr *value) value {
	if p, ok := (*addr).(poison); ok {
		return p
	}
	switch T := T.Underlying().(type) {
	case *types.Struct:
		v := (*addr).(structure)
		a := make(structure, len(v))
		for i := range a {
			a[i] = load(T.Field(i).Type(), &v[i])
		}
		return a
	case *types.Array:
		v := (*addr).(array)
		a := make(array, len(v))
		for i := range a {
			a[i] = load(T.Elem(), &v[i])
		}
		return a
	default:
		return *addr
	}
}

// copyVal returns an unaliased copy of an aggregate.
func copyVal(T types.Type, v value) value {
	switch v.(type) {
	case structure, array:
		return load(T, &v)
	}
	return v
}

type undoRec struct {
	addr *value
	old  value
	m    *gomap
	ents []*mapEntry
	ch   *gochan
	chst *chanState
}

// store stores value v of type T into *addr, journalling the old contents.
func (i *interpreter) store(T types.Type, addr *value, v value) {
	if addr == nil {
		i.guestPanic("invalid memory address or nil pointer dereference")
	}
	if i.race != nil {
		i.race.access(i, addr, true)
	}
	i.storeRaw(T, addr, v)
}

func (i *interpreter) storeRaw(T types.Type, addr *value, v value) {
	if _, ok := v.(poison); ok {
		i.setCell(addr, v)
		return
	}
	if _, ok := (*addr).(poison); ok {
		i.setCell(addr, copyVal(T, v))
		return
	}
	switch T := T.Underlying().(type) {
	case *types.Struct:
		lhs := (*addr).(structure)
		rhs := v.(structure)
		for k := range lhs {
			i.storeRaw(T.Field(k).Type(), &lhs[k], rhs[k])
		}
	case *types.Array:
		lhs := (*addr).(array)
		rhs := v.(array)
		for k := range lhs {
			i.storeRaw(T.Elem(), &lhs[k], rhs[k])
		}
	default:
		i.setCell(addr, v)
	}
}

func (i *interpreter) setCell(addr *value, v value) {
	if i.journalOn {
		i.journal = append(i.journal, undoRec{addr: addr, old: *addr})
	}
	*addr = v
}

func (i *interpreter) rollback() {
	for k := len(i.journal) - 1; k >= 0; k-- {
		u := &i.journal[k]
		switch {
		case u.addr != nil:
			*u.addr = u.old
		case u.m != nil:
			u.m.entries = u.ents
		case u.ch != nil:
			u.ch.st = *u.chst
		}
	}
	i.journal = i.journal[:0]
}

// ---- symbolic helpers ----

func isSym(v value) bool {
	_, ok := v.(*sym)
	return ok
}

// basicKind returns the basic kind of t's underlying type (or Invalid).
func basicKind(t types.Type) types.BasicKind {
	if t == nil {
		return types.Invalid
	}
	if b, ok := t.Underlying().(*types.Basic); ok {
		return b.Kind()
	}
	return types.Invalid
}

func kindWidth(k types.BasicKind) (w int, signed bool) {
	switch k {
	case types.Int, types.Int64, types.UntypedInt:
		return 64, true
	case types.Int32, types.UntypedRune:
		return 32, true
	case types.Int16:
		return 16, true
	case types.Int8:
		return 8, true
	case types.Uint, types.Uint64, types.Uintptr:
		return 64, false
	case types.Uint32:
		return 32, false
	case types.Uint16:
		return 16, false
	case types.Uint8:
		return 8, false
	}
	return 0, false
}

// term lifts a concrete or symbolic scalar to an SMT term.
func (i *interpreter) term(v value) *smt.Term {
	st := i.st
	switch v := v.(type) {
	case *sym:
		return v.t
	case bool:
		return st.Bool(v)
	case int:
		return st.Const(smt.BV(64), uint64(v))
	case int64:
		return st.Const(smt.BV(64), uint64(v))
	case int32:
		return st.Const(smt.BV(32), uint64(v))
	case int16:
		return st.Const(smt.BV(16), uint64(v))
	case int8:
		return st.Const(smt.BV(8), uint64(v))
	case uint:
		return st.Const(smt.BV(64), uint64(v))
	case uint64:
		return st.Const(smt.BV(64), v)
	case uintptr:
		return st.Const(smt.BV(64), uint64(v))
	case uint32:
		return st.Const(smt.BV(32), uint64(v))
	case uint16:
		return st.Const(smt.BV(16), uint64(v))
	case uint8:
		return st.Const(smt.BV(8), uint64(v))
	case float64:
		return st.Float(v)
	}
	panic(unsupported(fmt.Sprintf("term: cannot lift %T", v)))
}

// fromTerm converts a term back to a value of basic kind k: constants become Go values.
func (i *interpreter) fromTerm(t *smt.Term, k types.BasicKind) value {
	if !t.IsConst() {
		return &sym{t}
	}
	return constOfKind(t.Val, t.S, k)
}

func constOfKind(v uint64, s smt.Sort, k types.BasicKind) value {
	switch s.K {
	case smt.KBool:
		return v == 1
	case smt.KFP:
		return float64frombits(v)
	}
	switch k {
	case types.Int, types.UntypedInt:
		return int(v)
	case types.Int64:
		return int64(v)
	case types.Int32, types.UntypedRune:
		return int32(v)
	case types.Int16:
		return int16(v)
	case types.Int8:
		return int8(v)
	case types.Uint:
		return uint(v)
	case types.Uint64:
		return uint64(v)
	case types.Uintptr:
		return uintptr(v)
	case types.Uint32:
		return uint32(v)
	case types.Uint16:
		return uint16(v)
	case types.Uint8:
		return uint8(v)
	}
	panic(unsupported(fmt.Sprintf("constOfKind: kind %v sort %v", k, s)))
}

func (i *interpreter) symBool(t *smt.Term) value {
	if t.IsConst() {
		return t.Val == 1
	}
	return &sym{t}
}

// and/or/not over bool-or-symbolic values
func (i *interpreter) vAnd(a, b value) value {
	if x, ok := a.(bool); ok {
		if !x {
			return false
		}
		return b
	}
	if y, ok := b.(bool); ok {
		if !y {
			return false
		}
		return a
	}
	return i.symBool(i.st.And(i.term(a), i.term(b)))
}

func (i *interpreter) vOr(a, b value) value {
	if x, ok := a.(bool); ok {
		if x {
			return true
		}
		return b
	}
	if y, ok := b.(bool); ok {
		if y {
			return true
		}
		return a
	}
	return i.symBool(i.st.Or(i.term(a), i.term(b)))
}

func (i *interpreter) vNot(a value) value {
	if x, ok := a.(bool); ok {
		return !x
	}
	return i.symBool(i.st.Not(i.term(a)))
}

// ---- equality ----

// equals returns x == y under Go's rules for type t, as a bool or a symbolic bool.
func (i *interpreter) equals(t types.Type, x, y value) value {
	if _, ok := x.(poison); ok {
		panic(unsupported("comparison of poison value: " + x.(poison).why))
	}
	if _, ok := y.(poison); ok {
		panic(unsupported("comparison of poison value: " + y.(poison).why))
	}
	if isSym(x) || isSym(y) {
		tx, ty := i.term(x), i.term(y)
		if tx.S.K == smt.KFP {
			return i.symBool(i.st.FPCmp("fp.eq", tx, ty))
		}
		return i.symBool(i.st.Eq(tx, ty))
	}
	switch x := x.(type) {
	case bool:
		return x == y.(bool)
	case int:
		return x == y.(int)
	case int8:
		return x == y.(int8)
	case int16:
		return x == y.(int16)
	case int32:
		return x == y.(int32)
	case int64:
		return x == y.(int64)
	case uint:
		return x == y.(uint)
	case uint8:
		return x == y.(uint8)
	case uint16:
		return x == y.(uint16)
	case uint32:
		return x == y.(uint32)
	case uint64:
		return x == y.(uint64)
	case uintptr:
		return x == y.(uintptr)
	case float32:
		return x == y.(float32)
	case float64:
		return x == y.(float64)
	case complex64:
		return x == y.(complex64)
	case complex128:
		return x == y.(complex128)
	case string:
		switch y := y.(type) {
		case string:
			return x == y
		case symstr:
			return i.strEq(strOf(x), y)
		}
	case symstr:
		return i.strEq(x, toSymstr(y))
	case *value:
		return x == y.(*value)
	case *gochan:
		return x == y.(*gochan)
	case structure:
		ys := y.(structure)
		tStruct := t.Underlying().(*types.Struct)
		var r value = true
		for k, n := 0, tStruct.NumFields(); k < n; k++ {
			if f := tStruct.Field(k); f.Name() != "_" {
				r = i.vAnd(r, i.equals(f.Type(), x[k], ys[k]))
				if r == false {
					return false
				}
			}
		}
		return r
	case array:
		ya := y.(array)
		tElt := t.Underlying().(*types.Array).Elem()
		var r value = true
		for k := range x {
			r = i.vAnd(r, i.equals(tElt, x[k], ya[k]))
			if r == false {
				return false
			}
		}
		return r
	case iface:
		yi := y.(iface)
		if !sameType(x.t, yi.t) {
			return false
		}
		if x.t == nil {
			return true
		}
		if !types.Comparable(x.t) {
			i.guestPanic("comparing uncomparable type " + x.t.String())
		}
		return i.equals(x.t, x.v, yi.v)
	case rtype:
		return types.Identical(x.t, y.(rtype).t)
	case unsafePtr:
		yp, ok := y.(unsafePtr)
		return ok && x.p == yp.p
	}
	panic(unsupported(fmt.Sprintf("equals: uncomparable dynamic types %T, %T (static %v)", x, y, t)))
}

// eqnil: comparison for reference types where one side is nil.
func (i *interpreter) eqnil(t types.Type, x, y value) value {
	switch t.Underlying().(type) {
	case *types.Map, *types.Signature, *types.Slice:
		return isNilRef(x) == isNilRef(y)
	}
	return i.equals(t, x, y)
}

func isNilRef(x value) bool {
	switch x := x.(type) {
	case *gomap:
		return x == nil
	case []value:
		return x == nil
	case *ssa.Function:
		return x == nil
	case *closure:
		return x == nil
	case *ssa.Builtin:
		return false
	case *intrinsicFn:
		return x == nil
	}
	panic(unsupported(fmt.Sprintf("isNilRef: %T", x)))
}

// ---- printing (debug, println) ----

func writeValue(buf *bytes.Buffer, v value) {
	switch v := v.(type) {
	case nil, bool, int, int8, int16, int32, int64, uint, uint8, uint16, uint32, uint64, uintptr, float32, float64, complex64, complex128:
		fmt.Fprintf(buf, "%v", v)
	case string:
		fmt.Fprintf(buf, "%q", v)
	case *sym:
		fmt.Fprintf(buf, "<%s>", v.t)
	case symstr:
		buf.WriteString("symstr[")
		for k, b := range v.b {
			if k > 0 {
				buf.WriteByte(' ')
			}
			writeValue(buf, b)
		}
		buf.WriteString("]")
	case *gomap:
		buf.WriteString("map[")
		if v != nil {
			for k, e := range v.entries {
				if k > 0 {
					buf.WriteByte(' ')
				}
				writeValue(buf, e.key)
				buf.WriteString(":")
				writeValue(buf, e.val)
			}
		}
		buf.WriteString("]")
	case *value:
		if v == nil {
			buf.WriteString("<nil>")
		} else {
			fmt.Fprintf(buf, "&")
			writeValueShallow(buf, *v)
		}
	case iface:
		if v.t == nil {
			buf.WriteString("nil")
			return
		}
		fmt.Fprintf(buf, "(%s, ", v.t)
		writeValue(buf, v.v)
		buf.WriteString(")")
	case structure:
		buf.WriteString("{")
		for k, e := range v {
			if k > 0 {
				buf.WriteString(" ")
			}
			writeValue(buf, e)
		}
		buf.WriteString("}")
	case array:
		buf.WriteString("[")
		for k, e := range v {
			if k > 0 {
				buf.WriteString(" ")
			}
			writeValue(buf, e)
		}
		buf.WriteString("]")
	case []value:
		buf.WriteString("[")
		for k, e := range v {
			if k > 0 {
				buf.WriteString(" ")
			}
			writeValue(buf, e)
		}
		buf.WriteString("]")
	case *ssa.Function, *ssa.Builtin, *closure:
		fmt.Fprintf(buf, "%p", v)
	case rtype:
		buf.WriteString(v.t.String())
	case tuple:
		buf.WriteString("(")
		for k, e := range v {
			if k > 0 {
				buf.WriteString(", ")
			}
			writeValue(buf, e)
		}
		buf.WriteString(")")
	case poison:
		buf.WriteString("<poison:" + v.why + ">")
	default:
		fmt.Fprintf(buf, "<%T>", v)
	}
}

func writeValueShallow(buf *bytes.Buffer, v value) {
	switch v.(type) {
	case structure, array, []value, *value:
		fmt.Fprintf(buf, "<%T>", v)
	default:
		writeValue(buf, v)
	}
}

func toString(v value) string {
	var b bytes.Buffer
	writeValue(&b, v)
	s := b.String()
	if len(s) > 400 {
		s = s[:400] + "…"
	}
	return s
}

var _ = strings.Join
