package driver

import "golang.org/x/tools/go/ssa"

type ssaPackage = ssa.Package
