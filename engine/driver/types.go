package driver

import (
	"os"
	"os/exec"
	"strings"

	"golang.org/x/tools/go/ssa"
)

type ssaPackage = ssa.Package

// solverCmd returns the SMT solver command (VERIF_SOLVER overrides; default z3 5.1.0, because
// z3 4.8.12 answers sat on some unsatisfiable queries that apply an uninterpreted function to
// floating-point arguments).
func solverCmd() []string {
	if s := os.Getenv("VERIF_SOLVER"); s != "" {
		return strings.Fields(s)
	}
	if p, err := exec.LookPath("z3-new"); err == nil {
		return []string{p, "-in"}
	}
	return []string{"z3", "-in"}
}

// solverDescription names the solver actually used (command line and reported version).
func solverDescription() string {
	cmd := solverCmd()
	ver := "unknown version"
	if out, err := exec.Command(cmd[0], "--version").Output(); err == nil {
		ver = strings.TrimSpace(string(out))
	}
	return strings.Join(cmd, " ") + " [" + ver + "] (one incremental process per worker, push/pop per path, define-fun per term)"
}
