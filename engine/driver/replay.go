package driver

import (
	"bufio"
	"bytes"
	"encoding/json"
	"fmt"
	"os"
	"os/exec"
	"path/filepath"
	"sort"
	"strings"
	"time"

	"symgo/interp"
)

// ReplayResult is the outcome of running one replay vector against the natively compiled code.
type ReplayResult struct {
	File   string   `json:"file"`
	Status string   `json:"status"` // ok, invalid (assumption failed / vector exhausted), panic
	Failed []string `json:"failed"`
	Panic  string   `json:"panic"`
	Covers []string `json:"covers"`
	Race   bool     `json:"race,omitempty"` // the Go race detector reported a data race while this file ran
	Outputs       []string `json:"outputs,omitempty"`        // what the harness handed to verifOutput
	SeedDependent bool     `json:"seed_dependent,omitempty"` // Outputs differed between two fresh processes (fresh hash seeds, fresh map iteration orders)
}

// ReplayFile is the on-disk form of a counterexample.
type ReplayFile struct {
	Property string             `json:"property"`
	Harness  string             `json:"harness"`
	Label    string             `json:"label"`
	Kind     string             `json:"kind"`
	Msg      string             `json:"msg"`
	Known    string             `json:"known,omitempty"`
	Nondet   []interp.NondetRec `json:"nondet"`
	UF       interface{}        `json:"uf,omitempty"`
	Path     []int32            `json:"path,omitempty"`
}

func testFileSource(pkg string, harnesses []string) []byte {
	var b bytes.Buffer
	fmt.Fprintf(&b, `package %s

import (
	"encoding/json"
	"fmt"
	"os"
	"path/filepath"
	"sort"
	"strings"
	"testing"
	"time"
)

var verifHarnesses = map[string]func(){
`, pkg)
	for _, h := range harnesses {
		fmt.Fprintf(&b, "\t%q: %s,\n", h, h)
	}
	b.WriteString(`}

type verifOutcome struct {
	File   string   ` + "`json:\"file\"`" + `
	Status string   ` + "`json:\"status\"`" + `
	Failed []string ` + "`json:\"failed\"`" + `
	Panic  string   ` + "`json:\"panic\"`" + `
	Covers []string ` + "`json:\"covers\"`" + `
	Outputs []string ` + "`json:\"outputs\"`" + `
}

func verifRunOneTimed(path string) verifOutcome {
	done := make(chan verifOutcome, 1)
	go func() { done <- verifRunOne(path) }()
	select {
	case o := <-done:
		return o
	case <-time.After(5 * time.Second):
		return verifOutcome{File: path, Status: "timeout", Panic: "harness did not finish within 5s"}
	}
}

func verifRunOne(path string) (out verifOutcome) {
	out.File = path
	f, err := verifLoad(path)
	if err != nil {
		out.Status = "invalid"
		out.Panic = err.Error()
		return
	}
	h := verifHarnesses[f.Harness]
	if h == nil {
		out.Status = "invalid"
		out.Panic = "no such harness " + f.Harness
		return
	}
	defer func() {
		out.Failed = verifFailed
		out.Covers = verifCovers
		out.Outputs = verifOutputs
		if r := recover(); r != nil {
			switch r.(type) {
			case verifAssumeFailed:
				out.Status = "invalid"
				out.Panic = "assumption failed"
			case verifExhausted:
				out.Status = "invalid"
				out.Panic = "replay vector exhausted"
			default:
				out.Status = "panic"
				out.Panic = fmt.Sprint(r)
			}
		}
	}()
	out.Status = "ok"
	h()
	return
}

func TestVerifReplay(t *testing.T) {
	dir := os.Getenv("VERIF_REPLAY_DIR")
	files, _ := filepath.Glob(filepath.Join(dir, "*.json"))
	sort.Strings(files)
	skip := map[string]bool{}
	for _, s := range strings.Split(os.Getenv("VERIF_REPLAY_SKIP"), ",") {
		skip[s] = true
	}
	for _, p := range files {
		if skip[filepath.Base(p)] {
			continue
		}
		fmt.Printf("VERIF-REPLAY-START %s\n", filepath.Base(p))
		o := verifRunOneTimed(p)
		b, _ := json.Marshal(o)
		fmt.Printf("VERIF-REPLAY %s\n", b)
	}
}
`)
	return b.Bytes()
}

// NativeReplay runs the replay files in dir (all for one package) against /repo's working tree.
func NativeReplay(repo, verifDir, pkgDir, pkgName string, harnessFiles map[string][]byte, harnessNames []string, dir string, timeout time.Duration, race bool, procs int) (map[string]ReplayResult, string, error) {
	tmp, err := os.MkdirTemp("", "verif-replay-")
	if err != nil {
		return nil, "", err
	}
	defer os.RemoveAll(tmp)
	replace := map[string]string{}
	write := func(name string, data []byte) error {
		real := filepath.Join(tmp, name)
		if err := os.WriteFile(real, data, 0o644); err != nil {
			return err
		}
		replace[filepath.Join(repo, pkgDir, name)] = real
		return nil
	}
	for name, data := range harnessFiles {
		if err := write(name, data); err != nil {
			return nil, "", err
		}
	}
	if err := write("zz_verif_api_native.go", interp.NativeShim(pkgName)); err != nil {
		return nil, "", err
	}
	sort.Strings(harnessNames)
	if err := write("zz_verif_replay_test.go", testFileSource(pkgName, harnessNames)); err != nil {
		return nil, "", err
	}
	ov, _ := json.Marshal(map[string]interface{}{"Replace": replace})
	ovPath := filepath.Join(tmp, "overlay.json")
	if err := os.WriteFile(ovPath, ov, 0o644); err != nil {
		return nil, "", err
	}
	res := map[string]ReplayResult{}
	var allOut bytes.Buffer
	var skip, crashed []string
	for round := 0; round < 12; round++ {
		args := []string{"test", "-v", "-vet=off", "-count=1", "-overlay", ovPath, "-run", "^TestVerifReplay$", "-timeout", fmt.Sprintf("%ds", int(timeout.Seconds()))}
		if race {
			args = append(args, "-race")
		}
		cmd := exec.Command("go", append(args, "./"+pkgDir)...)
		cmd.Dir = repo
		cmd.Env = append(os.Environ(), "GOFLAGS=-mod=mod", "GOPROXY=off", "VERIF_REPLAY_DIR="+dir, "VERIF_REPLAY_SKIP="+strings.Join(skip, ","))
		var out bytes.Buffer
		cmd.Stdout = &out
		cmd.Stderr = &out
		runErr := cmd.Run()
		allOut.Write(out.Bytes())
		started := ""
		raced := map[string]bool{}
		sc := bufio.NewScanner(bytes.NewReader(out.Bytes()))
		sc.Buffer(make([]byte, 1<<20), 1<<26)
		for sc.Scan() {
			line := sc.Text()
			if k := strings.Index(line, "VERIF-REPLAY-START "); k >= 0 {
				started = strings.TrimSpace(line[k+19:])
				continue
			}
			if strings.Contains(line, "WARNING: DATA RACE") && started != "" {
				raced[started] = true
			}
			if k := strings.Index(line, "VERIF-REPLAY "); k >= 0 {
				var r ReplayResult
				if json.Unmarshal([]byte(line[k+13:]), &r) == nil {
					r.Race = raced[filepath.Base(r.File)]
					res[filepath.Base(r.File)] = r
					skip = append(skip, filepath.Base(r.File))
					started = ""
				}
			}
		}
		if started == "" {
			if len(res) == 0 && runErr != nil {
				return res, allOut.String(), fmt.Errorf("native replay failed: %v", runErr)
			}
			break
		}
		// the test process died while replaying `started` (uncaught panic in a goroutine, fatal error)
		res[started] = ReplayResult{File: started, Status: "crashed", Panic: tail(out.String(), 600)}
		skip = append(skip, started)
		crashed = append(crashed, started)
	}
	if procs > 1 {
		// seed dependence: the same replay files in fresh processes (fresh random hash seeds,
		// fresh Go map iteration orders); any difference in what the harness hands to
		// verifOutput is an order leak
		bin := filepath.Join(tmp, "replay.test")
		cmd := exec.Command("go", "test", "-c", "-vet=off", "-overlay", ovPath, "-o", bin, "./"+pkgDir)
		cmd.Dir = repo
		cmd.Env = append(os.Environ(), "GOFLAGS=-mod=mod", "GOPROXY=off")
		if b, err := cmd.CombinedOutput(); err != nil {
			allOut.Write(b)
			return res, allOut.String(), fmt.Errorf("building the replay binary: %v", err)
		}
		for k := 1; k < procs; k++ {
			cmd := exec.Command(bin, "-test.v", "-test.run", "^TestVerifReplay$", "-test.timeout", "120s")
			cmd.Dir = filepath.Join(repo, pkgDir)
			cmd.Env = append(os.Environ(), "VERIF_REPLAY_DIR="+dir, "VERIF_REPLAY_SKIP="+strings.Join(crashed, ","))
			b, _ := cmd.CombinedOutput()
			sc := bufio.NewScanner(bytes.NewReader(b))
			sc.Buffer(make([]byte, 1<<20), 1<<26)
			for sc.Scan() {
				line := sc.Text()
				if k := strings.Index(line, "VERIF-REPLAY "); k >= 0 {
					var r ReplayResult
					if json.Unmarshal([]byte(line[k+13:]), &r) == nil {
						first, ok := res[filepath.Base(r.File)]
						if ok && strings.Join(first.Outputs, "\x00") != strings.Join(r.Outputs, "\x00") {
							first.SeedDependent = true
							first.Outputs = append(first.Outputs, r.Outputs...)
							res[filepath.Base(r.File)] = first
						}
					}
				}
			}
		}
	}
	out := &allOut
	return res, out.String(), nil
}
