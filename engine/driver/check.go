// Package driver runs the harnesses of one property, replays counterexamples natively,
// applies the known-findings file and writes the evidence.
package driver

import (
	"encoding/json"
	"fmt"
	"os"
	"path/filepath"
	"regexp"
	"sort"
	"strings"
	"time"

	"symgo/interp"
)

type Options struct {
	Repo, Verif string
	Property    string
	Tier        string
	Seed        int64
	Workers     int
	Verbose     bool
	Run         string // optional regexp restricting harness names
	NoReplay    bool
	PathBudget  int
	StepBudget  int
	QTimeout    int
	DumpSMT     string
}

type KnownFinding struct {
	ID          string `json:"id"`
	Property    string `json:"property"`
	Harness     string `json:"harness,omitempty"`
	Label       string `json:"label,omitempty"`
	Site        string `json:"site,omitempty"`
	Class       string `json:"class,omitempty"`
	Witness     string `json:"witness,omitempty"`
	Description string `json:"description,omitempty"`
	Fixed       string `json:"fixed,omitempty"` // "property=<id> <commit> <what failed>"
}

type harnessPkg struct {
	dir   string // package dir relative to repo (e.g. "rel", "pkg/arrai")
	name  string // package name
	files map[string][]byte
	funcs []string            // all Verif* functions in the package's harness files
	cover map[string][]string // harness -> required cover labels
	notes map[string]string   // harness -> bound description
}

var (
	funcRe  = regexp.MustCompile(`(?m)^func (Verif\w+)\(\)`)
	pkgRe   = regexp.MustCompile(`(?m)^package (\w+)`)
	coverRe = regexp.MustCompile(`(?m)^//\s*verif:cover\s+(\w+)\s+(.*)$`)
	boundRe = regexp.MustCompile(`(?m)^//\s*verif:bound\s+(\w+)\s+(.*)$`)
)

func scanHarnesses(verif string) ([]*harnessPkg, error) {
	root := filepath.Join(verif, "harness")
	var out []*harnessPkg
	err := filepath.Walk(root, func(p string, info os.FileInfo, err error) error {
		if err != nil || !info.IsDir() {
			return err
		}
		ents, _ := os.ReadDir(p)
		hp := &harnessPkg{files: map[string][]byte{}, cover: map[string][]string{}, notes: map[string]string{}}
		for _, e := range ents {
			if e.IsDir() || !strings.HasSuffix(e.Name(), ".go") {
				continue
			}
			b, err := os.ReadFile(filepath.Join(p, e.Name()))
			if err != nil {
				return err
			}
			hp.files[e.Name()] = b
			if m := pkgRe.FindSubmatch(b); m != nil {
				hp.name = string(m[1])
			}
			for _, m := range funcRe.FindAllSubmatch(b, -1) {
				hp.funcs = append(hp.funcs, string(m[1]))
			}
			for _, m := range coverRe.FindAllSubmatch(b, -1) {
				hp.cover[string(m[1])] = append(hp.cover[string(m[1])], strings.Fields(string(m[2]))...)
			}
			for _, m := range boundRe.FindAllSubmatch(b, -1) {
				hp.notes[string(m[1])] = strings.TrimSpace(string(m[2]))
			}
		}
		if len(hp.files) > 0 {
			rel, _ := filepath.Rel(root, p)
			hp.dir = rel
			sort.Strings(hp.funcs)
			out = append(out, hp)
		}
		return nil
	})
	return out, err
}

func loadKnown(verif string) ([]KnownFinding, error) {
	b, err := os.ReadFile(filepath.Join(verif, "known_findings.json"))
	if os.IsNotExist(err) {
		return nil, nil
	}
	if err != nil {
		return nil, err
	}
	var k []KnownFinding
	if err := json.Unmarshal(b, &k); err != nil {
		return nil, fmt.Errorf("known_findings.json: %w", err)
	}
	// further entries, one file each (committed; never written at run time)
	more, _ := filepath.Glob(filepath.Join(verif, "known_findings.d", "*.json"))
	sort.Strings(more)
	for _, p := range more {
		b, err := os.ReadFile(p)
		if err != nil {
			return nil, err
		}
		var one KnownFinding
		if err := json.Unmarshal(b, &one); err != nil {
			return nil, fmt.Errorf("%s: %w", p, err)
		}
		k = append(k, one)
	}
	return k, nil
}

type harnessEvidence struct {
	Harness        string         `json:"harness"`
	Package        string         `json:"package"`
	Bound          string         `json:"bound,omitempty"`
	Paths          int            `json:"feasible_paths"`
	Decisions      int            `json:"branch_decisions"`
	AssertQueries  int            `json:"assert_queries"`
	AssertUnsat    int            `json:"assert_unsat"`
	AssertSat      int            `json:"assert_sat"`
	AssertConcrete int            `json:"assert_concrete_true"`
	FeasQueries    int            `json:"feasibility_queries"`
	Unknown        int            `json:"solver_unknown"`
	SolverS        float64        `json:"solver_s"`
	WallS          float64        `json:"wall_s"`
	Steps          int64          `json:"ssa_instructions_executed"`
	AssumeEnds     int            `json:"paths_ended_by_assume"`
	Incomplete     []string       `json:"incomplete_paths,omitempty"`
	Covers         map[string]int `json:"covers"`
	PanicSites     map[string]int `json:"guest_panic_sites,omitempty"`
}

// Run executes the check and returns the process exit code.
func Run(opt Options) int {
	t0 := time.Now()
	pkgsAll, err := scanHarnesses(opt.Verif)
	if err != nil {
		fmt.Fprintln(os.Stderr, "scan:", err)
		return 2
	}
	known, err := loadKnown(opt.Verif)
	if err != nil {
		fmt.Fprintln(os.Stderr, err)
		return 2
	}
	prefix := "Verif" + opt.Property
	var runRe *regexp.Regexp
	if opt.Run != "" {
		runRe = regexp.MustCompile(opt.Run)
	}
	thorough := opt.Tier == "thorough"
	type sel struct {
		hp    *harnessPkg
		names []string
	}
	var sels []sel
	for _, hp := range pkgsAll {
		var names []string
		for _, f := range hp.funcs {
			if !strings.HasPrefix(f, prefix) {
				continue
			}
			rest := f[len(prefix):]
			if rest != "" && rest[0] >= '0' && rest[0] <= '9' {
				continue // e.g. C1 vs C10
			}
			if strings.HasSuffix(f, "Thorough") && !thorough {
				continue
			}
			if runRe != nil && !runRe.MatchString(f) {
				continue
			}
			names = append(names, f)
		}
		if len(names) > 0 {
			sels = append(sels, sel{hp, names})
		}
	}
	if len(sels) == 0 {
		fmt.Fprintf(os.Stderr, "no harness for property %s\n", opt.Property)
		return 2
	}
	overlay := map[string][]byte{}
	var patterns []string
	for _, s := range sels {
		for name, data := range s.hp.files {
			overlay[filepath.Join(opt.Repo, s.hp.dir, name)] = data
		}
		overlay[filepath.Join(opt.Repo, s.hp.dir, "zz_verif_api_sym.go")] = interp.SymShim(s.hp.name)
		patterns = append(patterns, "./"+s.hp.dir)
	}
	cfg := interp.Config{
		SolverCmd: solverCmd(), QueryTimeout: 10000, MaxSteps: 3_000_000, MaxPaths: 250000, MaxSymSize: 16,
		Workers: opt.Workers, Verbose: opt.Verbose, Seed: opt.Seed, Thorough: thorough, DumpSMT: opt.DumpSMT, MaxPreemptions: 2, MaxOrderDeviations: 1,
	}
	if thorough {
		cfg.QueryTimeout = 60000
		cfg.MaxPaths = 1500000
		cfg.MaxSteps = 20_000_000
		cfg.MaxPreemptions = 3
		cfg.MaxOrderDeviations = 2
	}
	if opt.PathBudget > 0 {
		cfg.MaxPaths = opt.PathBudget
	}
	if opt.StepBudget > 0 {
		cfg.MaxSteps = opt.StepBudget
	}
	if opt.QTimeout > 0 {
		cfg.QueryTimeout = opt.QTimeout
	}
	sh, spkgs, err := interp.Load(interp.LoadOptions{
		RepoDir: opt.Repo, Patterns: patterns, Overlay: overlay,
		ModelsDir: filepath.Join(opt.Verif, "models"), ModulePath: "github.com/arr-ai/arrai",
	}, cfg)
	if err != nil {
		// the tree does not type-check with the harness: the check cannot run
		fmt.Fprintln(os.Stderr, "load:", err)
		return 2
	}
	loadS := time.Since(t0).Seconds()

	replayRoot := filepath.Join(opt.Verif, "replays", opt.Property)
	os.RemoveAll(replayRoot)
	os.MkdirAll(replayRoot, 0o755)

	var hev []harnessEvidence
	funcs := map[string]int{}
	models := map[string]int{}
	var samples []interface{}
	total := struct {
		paths, decisions, aq, au, as, ac, fq, unk int
		solver                                    float64
		incomplete                                int
	}{}
	type cand struct {
		v    *interp.Violation
		hp   *harnessPkg
		file string
	}
	var cands []cand
	var brokenCovers []string
	var initPoison []string
	for _, s := range sels {
		var spkg = findPkg(spkgs, s.hp.dir)
		if spkg == nil {
			fmt.Fprintf(os.Stderr, "package %s not loaded\n", s.hp.dir)
			return 2
		}
		for _, name := range s.names {
			fn := spkg.Func(name)
			if fn == nil {
				fmt.Fprintf(os.Stderr, "harness %s not found in %s\n", name, s.hp.dir)
				return 2
			}
			res := sh.Explore(fn)
			if len(initPoison) == 0 {
				initPoison = res.InitPoison
			}
			he := harnessEvidence{
				Harness: name, Package: s.hp.dir, Bound: s.hp.notes[name], Paths: res.Paths, Decisions: res.Decisions, AssertQueries: res.AssertQ,
				AssertUnsat: res.AssertUnsat, AssertSat: res.AssertSat, AssertConcrete: res.AssertConcTrue, FeasQueries: res.FeasQ,
				Unknown: res.Unknown, SolverS: round3(res.SolverTime.Seconds()), WallS: round3(res.Wall.Seconds()), Steps: res.Steps,
				AssumeEnds: res.AssumeEnds, Incomplete: res.Incomplete, Covers: res.Covers, PanicSites: res.PanicSites,
			}
			hev = append(hev, he)
			total.paths += res.Paths
			total.decisions += res.Decisions
			total.aq += res.AssertQ
			total.au += res.AssertUnsat
			total.as += res.AssertSat
			total.ac += res.AssertConcTrue
			total.fq += res.FeasQ
			total.unk += res.Unknown
			total.solver += res.SolverTime.Seconds()
			total.incomplete += len(res.Incomplete)
			for k, n := range res.Funcs {
				funcs[k] += n
			}
			for k, n := range res.Models {
				models[k] += n
			}
			for k, sm := range res.Samples {
				if k < 4 {
					samples = append(samples, map[string]interface{}{"harness": name, "decisions": sm.Decisions, "outcome": sm.Outcome, "nondet": sm.Nondet})
				}
			}
			for _, c := range s.hp.cover[name] {
				if res.Covers[c] == 0 {
					brokenCovers = append(brokenCovers, name+":"+c)
				}
			}
			fmt.Printf("[%s] %s: paths=%d decisions=%d assert(unsat=%d sat=%d conc=%d) feas=%d unknown=%d incomplete=%d solver=%.1fs wall=%.1fs\n",
				opt.Property, name, res.Paths, res.Decisions, res.AssertUnsat, res.AssertSat, res.AssertConcTrue, res.FeasQ, res.Unknown, len(res.Incomplete),
				res.SolverTime.Seconds(), res.Wall.Seconds())
			for _, inc := range res.Incomplete {
				fmt.Printf("  incomplete: %s\n", inc)
			}
			if res.SolverErrors > 0 {
				fmt.Printf("  solver errors: %d (last: %s)\n", res.SolverErrors, res.LastSolverError)
			}
			for n, v := range res.Violations {
				file := fmt.Sprintf("%s-%s-%d.json", name, sanitize(v.Label), n)
				rf := ReplayFile{Property: opt.Property, Harness: v.Harness, Label: v.Label, Kind: v.Kind, Msg: v.Msg, Known: v.Known, Nondet: v.Nondet, UF: v.UF, Path: v.Path}
				b, _ := json.MarshalIndent(rf, "", " ")
				os.WriteFile(filepath.Join(replayRoot, file), b, 0o644)
				cands = append(cands, cand{v, s.hp, file})
			}
		}
	}

	// native replay of every counterexample, per package
	replayed := 0
	confirmed := map[string]bool{}
	replayDetail := map[string]ReplayResult{}
	if len(cands) > 0 && !opt.NoReplay {
		byPkg := map[*harnessPkg][]cand{}
		for _, c := range cands {
			byPkg[c.hp] = append(byPkg[c.hp], c)
		}
		for hp, cs := range byPkg {
			dir, _ := os.MkdirTemp("", "verif-cex-")
			for _, c := range cs {
				b, _ := os.ReadFile(filepath.Join(replayRoot, c.file))
				os.WriteFile(filepath.Join(dir, c.file), b, 0o644)
			}
			wantRace := false
			for _, c := range cs {
				if c.v.Kind == "race" {
					wantRace = true
				}
			}
			procs := 1
			for _, c := range cs {
				if strings.HasPrefix(c.v.Label, "seed-independent") {
					procs = 10
				}
			}
			res, out, err := NativeReplay(opt.Repo, opt.Verif, hp.dir, hp.name, hp.files, hp.funcs, dir, 5*time.Minute, wantRace, procs)
			os.RemoveAll(dir)
			if err != nil || len(res) < len(cs) {
				fmt.Fprintf(os.Stderr, "native replay problem: %v (%d of %d results)\n%s\n", err, len(res), len(cs), tail(out, 4000))
			}
			for _, c := range cs {
				r, ok := res[c.file]
				if !ok {
					continue
				}
				replayed++
				replayDetail[c.file] = r
				switch c.v.Kind {
				case "assert":
					for _, l := range r.Failed {
						if l == c.v.Label {
							confirmed[c.file] = true
						}
					}
					// an order leak shows as different outputs in fresh processes, never inside one
					if strings.HasPrefix(c.v.Label, "seed-independent") && r.SeedDependent {
						confirmed[c.file] = true
					}
				case "panic":
					// a panic inside the harness goroutine, or one that killed the test process
					if r.Status == "panic" || r.Status == "crashed" {
						confirmed[c.file] = true
					}
				case "race":
					// confirmed by the Go race detector on the natively compiled harness
					if r.Race {
						confirmed[c.file] = true
					}
				case "deadlock":
					// the natively compiled harness does not finish (or the runtime itself
					// reports that all goroutines are asleep)
					if r.Status == "timeout" || (r.Status == "crashed" && strings.Contains(r.Panic, "deadlock")) {
						confirmed[c.file] = true
					}
				default:
					// deadlock / race / nonterm: confirmed by their own replay drivers
					if r.Status == "panic" || len(r.Failed) > 0 {
						confirmed[c.file] = true
					}
				}
			}
		}
	}

	// classification
	knownOpen := map[string]KnownFinding{}
	for _, k := range known {
		if k.Fixed == "" && k.Property == opt.Property {
			knownOpen[k.ID] = k
		}
	}
	violations := 0
	spurious := 0
	knownSeen := map[string]bool{}
	violLabels := map[string]bool{}
	for _, c := range cands {
		ok := confirmed[c.file] || opt.NoReplay
		if !ok {
			spurious++
			r := replayDetail[c.file]
			fmt.Printf("UNCONFIRMED-CEX property=%s harness=%s label=%s native=%s/%v/%s replay=%s (not reported: does not reproduce natively)\n",
				opt.Property, c.v.Harness, c.v.Label, r.Status, r.Failed, r.Panic, filepath.Join(replayRoot, c.file))
			continue
		}
		if c.v.Known != "" {
			if kf, listed := knownOpen[c.v.Known]; listed {
				if !knownSeen[c.v.Known] {
					knownSeen[c.v.Known] = true
					fmt.Printf("KNOWN-FINDING: property=%s %s: %s\n", opt.Property, kf.ID, kf.Description)
				}
				continue
			}
		}
		key := c.v.Harness + "|" + c.v.Label + "|" + c.v.Known
		if !violLabels[key] {
			violLabels[key] = true
			violations++
			fmt.Printf("VIOLATION property=%s replay=%s\n", opt.Property, filepath.Join(replayRoot, c.file))
			fmt.Printf("  harness=%s label=%s kind=%s: %s\n", c.v.Harness, c.v.Label, c.v.Kind, c.v.Msg)
		}
	}

	// evidence
	var fnames []string
	for k := range funcs {
		fnames = append(fnames, k)
	}
	sort.Strings(fnames)
	var mnames []string
	for k := range models {
		mnames = append(mnames, k)
	}
	sort.Strings(mnames)
	if len(samples) == 0 {
		samples = append(samples, "no path sampled")
	}
	var knownList []string
	for id := range knownSeen {
		knownList = append(knownList, id)
	}
	sort.Strings(knownList)
	states := total.paths
	trans := total.decisions
	ev := map[string]interface{}{
		"property_id": opt.Property,
		"tier":        opt.Tier,
		"seed":        opt.Seed,
		"level":       "model_checking",
		"wall_s":      round3(time.Since(t0).Seconds()),
		"violations":  violations,
		"coverage": map[string]interface{}{
			"states":                        states,
			"transitions":                   trans,
			"traces_validated_against_impl": replayed,
			"samples":                       samples,
			"exhaustive":                    total.incomplete == 0,
			"explanation": "states = feasible symbolic paths of the real SSA explored to completion (each stands for all scalar inputs satisfying its path condition); " +
				"transitions = branch decisions (solver feasibility queries where the condition is symbolic, enumerated choices otherwise); an assertion is decided on every path: by term identity when the negation folds to false (assert_concrete_true), otherwise by an SMT query (assert_unsat = holds for all values on that path, assert_sat = counterexample, replayed natively)",
			"harnesses":             hev,
			"functions_encoded":     fnames,
			"functions_encoded_n":   len(fnames),
			"models_touched":        mnames,
			"queries":               map[string]int{"assert_unsat": total.au, "assert_sat": total.as, "assert_concrete_true": total.ac, "feasibility": total.fq, "unknown": total.unk},
			"solver_s":              round3(total.solver),
			"load_s":                round3(loadS),
			"incomplete_paths":      total.incomplete,
			"known_findings":        knownList,
			"unconfirmed_cex":       spurious,
			"counterexamples_found": len(cands),
			"missing_covers":        brokenCovers,
			"init_poison":           initPoison,
			"solver":                solverDescription(),
		},
		"assumptions": []string{
			"github.com/arr-ai/frozen is replaced by a list-based model (models/frozen): claims are about arr.ai code given a correct finite set/map under the Equal it is handed",
			"github.com/arr-ai/hash primitives are uninterpreted functions (+0/-0 hash alike, NaN hashes arbitrary)",
			"fmt.Errorf/errors.Errorf return opaque non-nil errors without formatting their arguments",
			"bounds as stated per harness (verif:bound); inputs outside them are not covered",
			"append capacity follows the Go 1.24 runtime growth rule unless the harness selects nondeterministic capacity",
		},
	}
	os.MkdirAll(filepath.Join(opt.Verif, "evidence"), 0o755)
	b, _ := json.MarshalIndent(ev, "", " ")
	if err := os.WriteFile(filepath.Join(opt.Verif, "evidence", opt.Property+".json"), b, 0o644); err != nil {
		fmt.Fprintln(os.Stderr, err)
		return 2
	}
	fmt.Printf("[%s] tier=%s paths=%d decisions=%d assert-queries=%d (unsat %d) incomplete=%d cex=%d confirmed-violations=%d known=%d wall=%.1fs\n",
		opt.Property, opt.Tier, total.paths, total.decisions, total.aq, total.au, total.incomplete, len(cands), violations, len(knownList), time.Since(t0).Seconds())
	if violations > 0 {
		return 1
	}
	if len(brokenCovers) > 0 {
		fmt.Printf("BROKEN-CHECK property=%s missing covers: %s\n", opt.Property, strings.Join(brokenCovers, " "))
		return 2
	}
	if total.incomplete > 0 {
		fmt.Printf("INCOMPLETE property=%s: %d path classes outside the supported fragment or budget (bound not run clean)\n", opt.Property, total.incomplete)
		return 3
	}
	return 0
}

func round3(f float64) float64 { return float64(int64(f*1000+0.5)) / 1000 }

func sanitize(s string) string {
	return regexp.MustCompile(`[^A-Za-z0-9_.-]+`).ReplaceAllString(s, "_")
}

func tail(s string, n int) string {
	if len(s) > n {
		return s[len(s)-n:]
	}
	return s
}

func findPkg(pkgs []*ssaPackage, dir string) *ssaPackage {
	for _, p := range pkgs {
		if p != nil && strings.HasSuffix(p.Pkg.Path(), "/"+dir) {
			return p
		}
	}
	return nil
}

// ReplayOne replays a single counterexample file natively and prints the outcome.
func ReplayOne(opt Options, path string) int {
	pkgsAll, err := scanHarnesses(opt.Verif)
	if err != nil {
		fmt.Fprintln(os.Stderr, err)
		return 2
	}
	b, err := os.ReadFile(path)
	if err != nil {
		fmt.Fprintln(os.Stderr, err)
		return 2
	}
	var rf ReplayFile
	if err := json.Unmarshal(b, &rf); err != nil {
		fmt.Fprintln(os.Stderr, err)
		return 2
	}
	for _, hp := range pkgsAll {
		for _, f := range hp.funcs {
			if f != rf.Harness {
				continue
			}
			dir, _ := os.MkdirTemp("", "verif-cex-")
			defer os.RemoveAll(dir)
			os.WriteFile(filepath.Join(dir, filepath.Base(path)), b, 0o644)
			procs := 1
			if strings.HasPrefix(rf.Label, "seed-independent") {
				procs = 10
			}
			res, out, err := NativeReplay(opt.Repo, opt.Verif, hp.dir, hp.name, hp.files, hp.funcs, dir, 5*time.Minute, rf.Kind == "race", procs)
			if opt.Verbose || err != nil {
				fmt.Println(tail(out, 8000))
			}
			for _, line := range strings.Split(out, "\n") {
				if strings.Contains(line, "[verifPrint]") {
					fmt.Println(line)
				}
			}
			r, ok := res[filepath.Base(path)]
			if !ok {
				fmt.Println("no replay result")
				return 2
			}
			fmt.Printf("replay %s: harness=%s status=%s failed=%v panic=%q (expected: %s %s)\n", path, rf.Harness, r.Status, r.Failed, r.Panic, rf.Kind, rf.Label)
			for _, l := range r.Failed {
				if l == rf.Label {
					fmt.Printf("VIOLATION property=%s replay=%s\n", rf.Property, path)
					return 1
				}
			}
			if rf.Kind == "panic" && r.Status == "panic" {
				fmt.Printf("VIOLATION property=%s replay=%s\n", rf.Property, path)
				return 1
			}
			if r.SeedDependent {
				fmt.Printf("outputs differ between fresh processes: %q\n", r.Outputs)
				fmt.Printf("VIOLATION property=%s replay=%s\n", rf.Property, path)
				return 1
			}
			return 0
		}
	}
	fmt.Fprintln(os.Stderr, "harness not found:", rf.Harness)
	return 2
}
