// Command symgo runs verification harnesses symbolically over /repo's current working tree.
package main

import (
	"flag"
	"fmt"
	"os"
	"path/filepath"
	"regexp"
	"sort"
	"strings"
	"time"

	"symgo/interp"
)

func main() {
	var (
		repo     = flag.String("repo", "/repo", "repository root")
		verifDir = flag.String("verif", "/verif", "verification root")
		pkg      = flag.String("pkg", "rel", "package directory relative to repo")
		run      = flag.String("run", ".*", "regexp of harness function names (Verif...)")
		workers  = flag.Int("workers", 16, "parallel workers")
		steps    = flag.Int("steps", 2_000_000, "step budget per path")
		paths    = flag.Int("paths", 200000, "path budget per harness")
		qto      = flag.Int("qtimeout", 10000, "solver timeout per query (ms)")
		verbose  = flag.Bool("v", false, "verbose")
		solver   = flag.String("solver", "z3 -in", "solver command")
		dump     = flag.String("dump-smt", "", "directory for SMT-LIB transcripts")
	)
	flag.Parse()
	t0 := time.Now()
	overlay := map[string][]byte{}
	hdir := filepath.Join(*verifDir, "harness", *pkg)
	ents, err := os.ReadDir(hdir)
	if err != nil {
		fmt.Fprintln(os.Stderr, err)
		os.Exit(2)
	}
	pkgName := ""
	for _, e := range ents {
		if !strings.HasSuffix(e.Name(), ".go") || strings.HasSuffix(e.Name(), "_test.go") {
			continue
		}
		b, err := os.ReadFile(filepath.Join(hdir, e.Name()))
		if err != nil {
			fmt.Fprintln(os.Stderr, err)
			os.Exit(2)
		}
		overlay[filepath.Join(*repo, *pkg, e.Name())] = b
		if m := regexp.MustCompile(`(?m)^package (\w+)`).FindSubmatch(b); m != nil {
			pkgName = string(m[1])
		}
	}
	overlay[filepath.Join(*repo, *pkg, "zz_verif_api_sym.go")] = interp.SymShim(pkgName)
	cfg := interp.Config{
		SolverCmd: strings.Fields(*solver), QueryTimeout: *qto, MaxSteps: *steps, MaxPaths: *paths, MaxSymSize: 8,
		Workers: *workers, Verbose: *verbose, DumpSMT: *dump,
	}
	sh, pkgs, err := interp.Load(interp.LoadOptions{
		RepoDir: *repo, Patterns: []string{"./" + *pkg}, Overlay: overlay,
		ModelsDir: filepath.Join(*verifDir, "models"), ModulePath: "github.com/arr-ai/arrai",
	}, cfg)
	if err != nil {
		fmt.Fprintln(os.Stderr, "load:", err)
		os.Exit(2)
	}
	fmt.Fprintf(os.Stderr, "loaded in %.1fs\n", time.Since(t0).Seconds())
	re := regexp.MustCompile(*run)
	bad := 0
	for _, p := range pkgs {
		if p == nil {
			continue
		}
		var names []string
		for name := range p.Members {
			if strings.HasPrefix(name, "Verif") && re.MatchString(name) {
				names = append(names, name)
			}
		}
		sort.Strings(names)
		for _, name := range names {
			fn := p.Func(name)
			if fn == nil {
				continue
			}
			res := sh.Explore(fn)
			fmt.Printf("%s: paths=%d decisions=%d assertQ=%d (unsat %d, sat %d, conc-true %d) feasQ=%d unknown=%d assume-ends=%d steps=%d solver=%.1fs wall=%.1fs\n",
				name, res.Paths, res.Decisions, res.AssertQ, res.AssertUnsat, res.AssertSat, res.AssertConcTrue, res.FeasQ, res.Unknown, res.AssumeEnds, res.Steps,
				res.SolverTime.Seconds(), res.Wall.Seconds())
			for _, s := range res.Incomplete {
				fmt.Printf("  INCOMPLETE %s\n", s)
				bad++
			}
			if *verbose {
				for _, s := range res.InitPoison {
					fmt.Printf("  init-poison %s\n", s)
				}
			}
			var covers []string
			for c, n := range res.Covers {
				covers = append(covers, fmt.Sprintf("%s=%d", c, n))
			}
			sort.Strings(covers)
			fmt.Printf("  covers: %s\n", strings.Join(covers, " "))
			for _, v := range res.Violations {
				fmt.Printf("  VIOLATION-CANDIDATE %s [%s] %s known=%q nondet=%v\n", v.Label, v.Kind, v.Msg, v.Known, v.Nondet)
				bad++
			}
			if res.SolverErrors > 0 {
				fmt.Printf("  solver errors: %d last=%s\n", res.SolverErrors, res.LastSolverError)
			}
			var ps []string
			for s, n := range res.PanicSites {
				ps = append(ps, fmt.Sprintf("%s x%d", s, n))
			}
			sort.Strings(ps)
			for _, s := range ps {
				fmt.Printf("  panic-site %s\n", s)
			}
		}
	}
	if bad > 0 {
		os.Exit(1)
	}
}
