// Command symgo runs the verification harnesses of one property symbolically over /repo's
// current working tree (see /verif/DESIGN.md).
package main

import (
	"flag"
	"fmt"
	"os"
	"strconv"

	"symgo/driver"
)

func main() {
	var opt driver.Options
	flag.StringVar(&opt.Repo, "repo", "/repo", "repository root")
	flag.StringVar(&opt.Verif, "verif", "/verif", "verification root")
	flag.StringVar(&opt.Property, "property", "", "property id (C01..C20, or Smoke)")
	flag.StringVar(&opt.Tier, "tier", "", "quick|thorough (default: $VERIF_TIER or quick)")
	flag.IntVar(&opt.Workers, "workers", 16, "parallel workers")
	flag.BoolVar(&opt.Verbose, "v", false, "verbose")
	flag.StringVar(&opt.Run, "run", "", "regexp restricting harness functions")
	flag.BoolVar(&opt.NoReplay, "no-replay", false, "skip native replay (debugging only)")
	flag.IntVar(&opt.PathBudget, "paths", 0, "override path budget")
	flag.IntVar(&opt.StepBudget, "steps", 0, "override step budget")
	flag.IntVar(&opt.QTimeout, "qtimeout", 0, "override solver timeout per query (ms)")
	flag.StringVar(&opt.DumpSMT, "dump-smt", "", "directory for SMT-LIB transcripts")
	replay := flag.String("replay", "", "replay one counterexample file natively")
	flag.Parse()
	if opt.Property == "" && flag.NArg() > 0 {
		opt.Property = flag.Arg(0)
	}
	if opt.Tier == "" {
		opt.Tier = os.Getenv("VERIF_TIER")
	}
	if opt.Tier != "thorough" {
		opt.Tier = "quick"
	}
	if s := os.Getenv("VERIF_SEED"); s != "" {
		opt.Seed, _ = strconv.ParseInt(s, 10, 64)
	}
	if opt.Property == "" {
		fmt.Fprintln(os.Stderr, "usage: symgo -property C03 [-tier quick|thorough]")
		os.Exit(2)
	}
	if *replay != "" {
		os.Exit(driver.ReplayOne(opt, *replay))
	}
	os.Exit(driver.Run(opt))
}
