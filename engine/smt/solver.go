package smt

import (
	"bufio"
	"fmt"
	"io"
	"os/exec"
	"strconv"
	"strings"
	"time"
)

type Result int

const (
	Unsat Result = iota
	Sat
	Unknown
)

func (r Result) String() string { return [...]string{"unsat", "sat", "unknown"}[r] }

// Solver is one incremental solver process. The path condition lives at push level 1; every
// query is a nested push/pop.
type Solver struct {
	Cmd       []string
	TimeoutMs int
	patient   int // >0 while a retry with a longer limit is running
	proc      *exec.Cmd
	in        io.WriteCloser
	out       *bufio.Reader
	defined   map[int]bool // term IDs defined in this session
	declUF    map[string]bool
	started   bool
	Log       io.Writer // optional transcript (SMT-LIB2 dump)

	// statistics
	Checks    int
	NSat      int
	NUnsat    int
	NUnknown  int
	Errors    int
	Time      time.Duration
	LastError string
	sessions  int
}

func NewSolver(cmd []string, timeoutMs int) *Solver {
	return &Solver{Cmd: cmd, TimeoutMs: timeoutMs}
}

func (s *Solver) start() error {
	s.proc = exec.Command(s.Cmd[0], s.Cmd[1:]...)
	in, err := s.proc.StdinPipe()
	if err != nil {
		return err
	}
	out, err := s.proc.StdoutPipe()
	if err != nil {
		return err
	}
	s.proc.Stderr = nil
	if err := s.proc.Start(); err != nil {
		return err
	}
	s.in = in
	s.out = bufio.NewReaderSize(out, 1<<16)
	s.started = true
	s.send("(set-option :print-success false)")
	s.send("(set-option :produce-models true)")
	if strings.Contains(s.Cmd[0], "z3") {
		s.send(fmt.Sprintf("(set-option :timeout %d)", s.TimeoutMs))
	} else {
		s.send("(set-logic ALL)")
	}
	s.send("(push 1)")
	return nil
}

func (s *Solver) Close() {
	if s.started {
		s.in.Close()
		done := make(chan struct{})
		go func() { s.proc.Wait(); close(done) }()
		select {
		case <-done:
		case <-time.After(2 * time.Second):
			s.proc.Process.Kill()
		}
		s.started = false
	}
}

func (s *Solver) send(line string) {
	if s.Log != nil {
		io.WriteString(s.Log, line+"\n")
	}
	io.WriteString(s.in, line)
	io.WriteString(s.in, "\n")
}

// Begin starts a fresh session (new path): the previous path condition is discarded.
func (s *Solver) Begin() error {
	s.sessions++
	if s.started && s.sessions%400 == 0 {
		s.Close() // bound solver memory
	}
	if !s.started {
		if err := s.start(); err != nil {
			return err
		}
	} else {
		s.send("(pop 1)")
		s.send("(push 1)")
	}
	s.defined = map[int]bool{}
	s.declUF = map[string]bool{}
	return nil
}

func (s *Solver) name(st *Store, t *Term) string {
	switch t.Op {
	case "const":
		return constText(t)
	case "var":
		s.declare(t)
		return t.Name
	}
	s.define(st, t)
	return "t" + strconv.Itoa(t.ID)
}

func (s *Solver) declare(t *Term) {
	if s.defined[t.ID] {
		return
	}
	s.defined[t.ID] = true
	s.send(fmt.Sprintf("(declare-const %s %s)", t.Name, t.S))
}

func (s *Solver) define(st *Store, t *Term) {
	if s.defined[t.ID] {
		return
	}
	// iterative post-order to avoid deep recursion
	type fr struct {
		t *Term
		i int
	}
	stack := []fr{{t, 0}}
	for len(stack) > 0 {
		top := &stack[len(stack)-1]
		if top.i < len(top.t.Args) {
			a := top.t.Args[top.i]
			top.i++
			if a.Op == "const" {
				continue
			}
			if a.Op == "var" {
				s.declare(a)
				continue
			}
			if !s.defined[a.ID] {
				stack = append(stack, fr{a, 0})
			}
			continue
		}
		cur := top.t
		stack = stack[:len(stack)-1]
		if s.defined[cur.ID] {
			continue
		}
		s.defined[cur.ID] = true
		if cur.IsUF && !s.declUF[cur.Name] {
			s.declUF[cur.Name] = true
			d := st.UFs[cur.Name]
			var as []string
			for _, a := range d.Args {
				as = append(as, a.String())
			}
			s.send(fmt.Sprintf("(declare-fun %s (%s) %s)", d.Name, strings.Join(as, " "), d.Res))
		}
		args := make([]string, len(cur.Args))
		for i, a := range cur.Args {
			switch a.Op {
			case "const":
				args[i] = constText(a)
			case "var":
				args[i] = a.Name
			default:
				args[i] = "t" + strconv.Itoa(a.ID)
			}
		}
		s.send(fmt.Sprintf("(define-fun t%d () %s %s)", cur.ID, cur.S, cur.render(args)))
	}
}

// Assert adds t to the path condition.
func (s *Solver) Assert(st *Store, t *Term) {
	s.send("(assert " + s.name(st, t) + ")")
}

func (s *Solver) readLine() (string, error) {
	line, err := s.out.ReadString('\n')
	return strings.TrimSpace(line), err
}

func (s *Solver) readResult() Result {
	for {
		line, err := s.readLine()
		if err != nil {
			s.Errors++
			s.LastError = "solver died: " + err.Error()
			s.started = false
			return Unknown
		}
		switch {
		case line == "sat":
			return Sat
		case line == "unsat":
			return Unsat
		case line == "unknown" || line == "timeout":
			return Unknown
		case strings.HasPrefix(line, "(error"):
			s.Errors++
			s.LastError = line
			// keep reading: the check-sat answer still follows, but it is not trusted
			r := s.readResult()
			_ = r
			return Unknown
		case line == "":
			continue
		default:
			s.Errors++
			s.LastError = "unexpected: " + line
			return Unknown
		}
	}
}

// Check decides pc ∧ extra (extra may be nil). If wantModel and the result is sat, the model
// of the store's variables and UF applications is returned.
// CheckPatient is Check with one retry at factor times the time limit when the first answer
// is unknown (assertion queries: an unknown there makes the whole check inconclusive).
func (s *Solver) CheckPatient(st *Store, extra *Term, wantModel bool, factor int) (Result, *Model) {
	r, m := s.Check(st, extra, wantModel)
	if r != Unknown || !s.started || factor <= 1 {
		return r, m
	}
	s.send(fmt.Sprintf("(set-option :timeout %d)", s.TimeoutMs*factor))
	s.patient = factor
	r, m = s.Check(st, extra, wantModel)
	s.patient = 0
	if s.started {
		s.send(fmt.Sprintf("(set-option :timeout %d)", s.TimeoutMs))
	}
	return r, m
}

func (s *Solver) Check(st *Store, extra *Term, wantModel bool) (Result, *Model) {
	t0 := time.Now()
	defer func() { s.Time += time.Since(t0) }()
	s.Checks++
	var nm string
	if extra != nil {
		nm = s.name(st, extra)
	}
	// make sure every variable is declared so the model is total
	if wantModel {
		for _, v := range st.Vars {
			s.declare(v)
		}
		for _, u := range st.UFApps {
			s.define(st, u)
		}
	}
	s.send("(push 1)")
	if extra != nil {
		s.send("(assert " + nm + ")")
	}
	s.send("(check-sat)")
	r := s.readResult()
	var m *Model
	if r == Sat && wantModel {
		m = s.getModel(st)
		if m == nil {
			r = Unknown
		}
	}
	if s.started {
		s.send("(pop 1)")
	}
	switch r {
	case Sat:
		s.NSat++
	case Unsat:
		s.NUnsat++
	default:
		s.NUnknown++
	}
	return r, m
}

type Model struct {
	Vars map[string]uint64 // variable name -> bits (bool 0/1)
	UF   []UFValue
}

type UFValue struct {
	Name string
	Args []uint64
	Res  uint64
}

func (s *Solver) getModel(st *Store) *Model {
	m := &Model{Vars: map[string]uint64{}}
	if len(st.Vars) == 0 && len(st.UFApps) == 0 {
		return m
	}
	var names []string
	for _, v := range st.Vars {
		names = append(names, v.Name)
	}
	type ufq struct {
		t    *Term
		args []int // indexes into names
		res  int
	}
	var ufqs []ufq
	for _, u := range st.UFApps {
		q := ufq{t: u}
		for _, a := range u.Args {
			q.args = append(q.args, len(names))
			if a.Op == "const" {
				names = append(names, constText(a))
			} else if a.Op == "var" {
				names = append(names, a.Name)
			} else {
				names = append(names, "t"+strconv.Itoa(a.ID))
			}
		}
		q.res = len(names)
		names = append(names, "t"+strconv.Itoa(u.ID))
		ufqs = append(ufqs, q)
	}
	s.send("(get-value (" + strings.Join(names, " ") + "))")
	text, err := s.readSexp()
	if err != nil || strings.HasPrefix(text, "(error") {
		s.Errors++
		s.LastError = "get-value: " + text
		return nil
	}
	vals, ok := parseValues(text, len(names))
	if !ok {
		s.Errors++
		s.LastError = "get-value parse: " + text
		return nil
	}
	for i, v := range st.Vars {
		m.Vars[v.Name] = vals[i]
	}
	for _, q := range ufqs {
		u := UFValue{Name: q.t.Name, Res: vals[q.res]}
		for _, ai := range q.args {
			u.Args = append(u.Args, vals[ai])
		}
		m.UF = append(m.UF, u)
	}
	return m
}

func (s *Solver) readSexp() (string, error) {
	var sb strings.Builder
	depth := 0
	seen := false
	for {
		b, err := s.out.ReadByte()
		if err != nil {
			s.started = false
			return sb.String(), err
		}
		if !seen && (b == '\n' || b == ' ' || b == '\r') {
			continue
		}
		sb.WriteByte(b)
		if b == '(' {
			depth++
			seen = true
		} else if b == ')' {
			depth--
			if depth == 0 && seen {
				return sb.String(), nil
			}
		} else if !seen {
			// atom answer (e.g. "unsupported")
			rest, _ := s.out.ReadString('\n')
			return sb.String() + rest, nil
		}
	}
}

// parseValues parses ((name val) (name val) ...) where val is #x.., #b.., true, false, or an fp
// literal; it returns the value of each pair in order.
func parseValues(text string, n int) ([]uint64, bool) {
	toks := tokenize(text)
	pos := 0
	next := func() string {
		if pos < len(toks) {
			t := toks[pos]
			pos++
			return t
		}
		return ""
	}
	if next() != "(" {
		return nil, false
	}
	var out []uint64
	for len(out) < n {
		if next() != "(" {
			return nil, false
		}
		// skip the name expression (atom or parenthesised)
		if !skipExpr(toks, &pos) {
			return nil, false
		}
		v, ok := parseVal(toks, &pos)
		if !ok {
			return nil, false
		}
		out = append(out, v)
		if next() != ")" {
			return nil, false
		}
	}
	return out, true
}

func skipExpr(toks []string, pos *int) bool {
	if *pos >= len(toks) {
		return false
	}
	if toks[*pos] != "(" {
		*pos++
		return true
	}
	depth := 0
	for *pos < len(toks) {
		switch toks[*pos] {
		case "(":
			depth++
		case ")":
			depth--
		}
		*pos++
		if depth == 0 {
			return true
		}
	}
	return false
}

func parseVal(toks []string, pos *int) (uint64, bool) {
	if *pos >= len(toks) {
		return 0, false
	}
	t := toks[*pos]
	switch {
	case t == "true":
		*pos++
		return 1, true
	case t == "false":
		*pos++
		return 0, true
	case strings.HasPrefix(t, "#x"):
		*pos++
		v, err := strconv.ParseUint(t[2:], 16, 64)
		return v, err == nil
	case strings.HasPrefix(t, "#b"):
		*pos++
		v, err := strconv.ParseUint(t[2:], 2, 64)
		return v, err == nil
	case t == "(":
		// (_ bvN w) or fp forms
		start := *pos
		if !skipExpr(toks, pos) {
			return 0, false
		}
		e := toks[start:*pos]
		if len(e) >= 5 && e[1] == "_" && strings.HasPrefix(e[2], "bv") {
			v, err := strconv.ParseUint(e[2][2:], 10, 64)
			return v, err == nil
		}
		if len(e) >= 5 && e[1] == "fp" {
			a, ok1 := lit(e[2])
			b, ok2 := lit(e[3])
			c, ok3 := lit(e[4])
			return a<<63 | b<<52 | c, ok1 && ok2 && ok3
		}
		if len(e) >= 3 && e[1] == "_" {
			switch e[2] {
			case "+zero":
				return 0, true
			case "-zero":
				return 1 << 63, true
			case "+oo":
				return 0x7ff0000000000000, true
			case "-oo":
				return 0xfff0000000000000, true
			case "NaN":
				return 0x7ff8000000000001, true
			}
		}
		return 0, false
	}
	return 0, false
}

func lit(t string) (uint64, bool) {
	if strings.HasPrefix(t, "#x") {
		v, err := strconv.ParseUint(t[2:], 16, 64)
		return v, err == nil
	}
	if strings.HasPrefix(t, "#b") {
		v, err := strconv.ParseUint(t[2:], 2, 64)
		return v, err == nil
	}
	return 0, false
}

func tokenize(s string) []string {
	var toks []string
	i := 0
	for i < len(s) {
		c := s[i]
		switch {
		case c == '(' || c == ')':
			toks = append(toks, string(c))
			i++
		case c == ' ' || c == '\n' || c == '\t' || c == '\r':
			i++
		case c == '|':
			j := i + 1
			for j < len(s) && s[j] != '|' {
				j++
			}
			toks = append(toks, s[i:j+1])
			i = j + 1
		default:
			j := i
			for j < len(s) && !strings.ContainsRune("() \n\t\r", rune(s[j])) {
				j++
			}
			toks = append(toks, s[i:j])
			i = j
		}
	}
	return toks
}
