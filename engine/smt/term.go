// Package smt holds the term language (bit-vectors, booleans, IEEE double) used by the
// symbolic executor, with constant folding, and an incremental pipe to an SMT solver.
package smt

import (
	"fmt"
	"math"
	"math/bits"
	"strings"
)

type Kind uint8

const (
	KBool Kind = iota
	KBV
	KFP // float64
)

type Sort struct {
	K Kind
	W int // bit width for KBV
}

func (s Sort) String() string {
	switch s.K {
	case KBool:
		return "Bool"
	case KBV:
		return fmt.Sprintf("(_ BitVec %d)", s.W)
	case KFP:
		return "(_ FloatingPoint 11 53)"
	}
	return "?"
}

var (
	BoolSort = Sort{K: KBool}
	FPSort   = Sort{K: KFP}
)

func BV(w int) Sort { return Sort{K: KBV, W: w} }

// Term is an immutable DAG node.
type Term struct {
	Op    string // "const", "var", or SMT-LIB operator head (possibly indexed, e.g. "(_ extract 7 0)")
	Args  []*Term
	S     Sort
	Val   uint64 // const: BV value / bool (0,1) / float bits
	Name  string // var / uf name
	ID    int    // unique id (creation order) within a TermStore
	IsUF  bool
	Depth int
}

func (t *Term) IsConst() bool { return t.Op == "const" }

// Store creates terms; hash-consed per store. One store per worker path (reset at path start).
type Store struct {
	next  int
	table map[string]*Term
	Vars  []*Term          // in creation order
	UFs   map[string]*UFDecl
	UFApps []*Term
	ranges map[int][2]int64 // term ID -> signed value range known to hold on this path
}

// SetRange records that variable t (a BV) lies in [lo, hi] as a signed integer.
func (st *Store) SetRange(t *Term, lo, hi int64) {
	if st.ranges == nil {
		st.ranges = map[int][2]int64{}
	}
	st.ranges[t.ID] = [2]int64{lo, hi}
}

const exactF = int64(1) << 53

// RangeOf returns a signed range for a BV term when one is cheaply derivable.
func (st *Store) RangeOf(t *Term, signed bool) (lo, hi int64, ok bool) {
	if t.S.K != KBV {
		return 0, 0, false
	}
	switch {
	case t.Op == "const":
		if signed {
			v := sext(t.Val, t.S.W)
			return v, v, true
		}
		if t.S.W == 64 && t.Val > 1<<62 {
			return 0, 0, false
		}
		return int64(t.Val), int64(t.Val), true
	case t.Op == "var":
		if r, has := st.ranges[t.ID]; has && signed {
			return r[0], r[1], true
		}
		if r, has := st.ranges[t.ID]; has && !signed && r[0] >= 0 {
			return r[0], r[1], true
		}
	case t.Op == "bvadd" || t.Op == "bvsub":
		if !signed {
			return 0, 0, false
		}
		al, ah, ok1 := st.RangeOf(t.Args[0], true)
		bl, bh, ok2 := st.RangeOf(t.Args[1], true)
		if ok1 && ok2 && abs64(al) < 1<<60 && abs64(ah) < 1<<60 && abs64(bl) < 1<<60 && abs64(bh) < 1<<60 {
			var l, h int64
			if t.Op == "bvadd" {
				l, h = al+bl, ah+bh
			} else {
				l, h = al-bh, ah-bl
			}
			if t.S.W < 64 {
				lim := int64(1) << uint(t.S.W-1)
				if l < -lim || h >= lim {
					return 0, 0, false
				}
			}
			return l, h, true
		}
	case t.Op == "bvmul":
		if !signed || t.S.W != 64 {
			return 0, 0, false
		}
		al, ah, ok1 := st.RangeOf(t.Args[0], true)
		bl, bh, ok2 := st.RangeOf(t.Args[1], true)
		if ok1 && ok2 && abs64(al) < 1<<30 && abs64(ah) < 1<<30 && abs64(bl) < 1<<30 && abs64(bh) < 1<<30 {
			l, h := al*bl, al*bl
			for _, p := range []int64{al * bh, ah * bl, ah * bh} {
				if p < l {
					l = p
				}
				if p > h {
					h = p
				}
			}
			return l, h, true
		}
	case t.Op == "bvneg":
		if !signed {
			return 0, 0, false
		}
		if al, ah, ok1 := st.RangeOf(t.Args[0], true); ok1 && abs64(al) < 1<<60 && abs64(ah) < 1<<60 && (t.S.W == 64 || (-ah >= -(int64(1)<<uint(t.S.W-1)) && -al < int64(1)<<uint(t.S.W-1))) {
			return -ah, -al, true
		}
	case t.Op == "bvand":
		for _, a := range t.Args {
			if a.Op == "const" && a.Val < 1<<62 && (t.S.W == 64 || a.Val < 1<<uint(t.S.W-1)) {
				return 0, int64(a.Val), true
			}
		}
	case t.Op == "ite":
		al, ah, ok1 := st.RangeOf(t.Args[1], signed)
		bl, bh, ok2 := st.RangeOf(t.Args[2], signed)
		if ok1 && ok2 {
			if bl < al {
				al = bl
			}
			if bh > ah {
				ah = bh
			}
			return al, ah, true
		}
	case strings.HasPrefix(t.Op, "(_ sign_extend"):
		return st.RangeOf(t.Args[0], true)
	case strings.HasPrefix(t.Op, "(_ zero_extend"):
		a := t.Args[0]
		if l, h, ok := st.RangeOf(a, false); ok {
			return l, h, true
		}
		if a.S.W < 63 {
			return 0, int64(mask(a.S.W)), true
		}
	}
	// narrow types always have a range
	if t.S.W <= 32 {
		if signed {
			lim := int64(1) << uint(t.S.W-1)
			return -lim, lim - 1, true
		}
		return 0, int64(mask(t.S.W)), true
	}
	return 0, 0, false
}

func abs64(x int64) int64 {
	if x < 0 {
		return -x
	}
	return x
}

// isI2F reports whether t is an exact integer-to-float conversion i2f(x) (|x| <= 2^53), and
// returns x sign- or zero-extended to 64 bits.
func (st *Store) isI2F(t *Term) (*Term, bool) {
	switch t.Op {
	case "i2f.s":
		return st.SignExt(64, t.Args[0]), true
	case "i2f.u":
		return st.ZeroExt(64, t.Args[0]), true
	case "const":
		if t.S.K == KFP {
			f := math.Float64frombits(t.Val)
			if f == math.Trunc(f) && math.Abs(f) <= float64(exactF) && !(f == 0 && math.Signbit(f)) {
				return st.Const(BV(64), uint64(int64(f))), true
			}
		}
	}
	return nil, false
}

type UFDecl struct {
	Name string
	Args []Sort
	Res  Sort
}

func NewStore() *Store {
	return &Store{table: map[string]*Term{}, UFs: map[string]*UFDecl{}}
}

func (st *Store) Reset() {
	st.next = 0
	st.table = map[string]*Term{}
	st.Vars = st.Vars[:0]
	st.UFApps = st.UFApps[:0]
	st.ranges = nil
	// UF declarations persist (names are global), but are re-declared per solver session.
}

func (st *Store) mk(op string, s Sort, args ...*Term) *Term {
	var sb strings.Builder
	sb.WriteString(op)
	sb.WriteByte('|')
	sb.WriteString(s.String())
	d := 0
	for _, a := range args {
		fmt.Fprintf(&sb, "|%d", a.ID)
		if a.Depth > d {
			d = a.Depth
		}
	}
	k := sb.String()
	if t, ok := st.table[k]; ok {
		return t
	}
	t := &Term{Op: op, Args: args, S: s, ID: st.next, Depth: d + 1}
	st.next++
	st.table[k] = t
	return t
}

func (st *Store) Const(s Sort, v uint64) *Term {
	if s.K == KBV && s.W < 64 {
		v &= (1 << uint(s.W)) - 1
	}
	k := fmt.Sprintf("const|%s|%d", s, v)
	if t, ok := st.table[k]; ok {
		return t
	}
	t := &Term{Op: "const", S: s, Val: v, ID: st.next}
	st.next++
	st.table[k] = t
	return t
}

func (st *Store) Bool(b bool) *Term {
	if b {
		return st.Const(BoolSort, 1)
	}
	return st.Const(BoolSort, 0)
}

func (st *Store) Float(f float64) *Term { return st.Const(FPSort, math.Float64bits(f)) }

// Var creates a fresh variable. Float variables are declared as BV64 and wrapped with to_fp
// so that models are plain bit patterns.
func (st *Store) Var(s Sort, hint string) *Term {
	n := len(st.Vars)
	name := fmt.Sprintf("v%d_%s", n, hint)
	if s.K == KFP {
		bv := &Term{Op: "var", S: BV(64), Name: name, ID: st.next}
		st.next++
		st.Vars = append(st.Vars, bv)
		return st.mk("((_ to_fp 11 53)", FPSort, bv) // printed specially
	}
	t := &Term{Op: "var", S: s, Name: name, ID: st.next}
	st.next++
	st.Vars = append(st.Vars, t)
	return t
}

// UF applies an uninterpreted function.
func (st *Store) UF(name string, res Sort, args ...*Term) *Term {
	if _, ok := st.UFs[name]; !ok {
		d := &UFDecl{Name: name, Res: res}
		for _, a := range args {
			d.Args = append(d.Args, a.S)
		}
		st.UFs[name] = d
	}
	n0 := st.next
	t := st.mk("uf:"+name, res, args...)
	if t.ID >= n0 {
		t.IsUF = true
		t.Name = name
		st.UFApps = append(st.UFApps, t)
	}
	return t
}

func mask(w int) uint64 {
	if w >= 64 {
		return ^uint64(0)
	}
	return (1 << uint(w)) - 1
}

func sext(v uint64, w int) int64 {
	if w >= 64 {
		return int64(v)
	}
	sh := uint(64 - w)
	return int64(v<<sh) >> sh
}

func b2u(b bool) uint64 {
	if b {
		return 1
	}
	return 0
}

// ---- boolean ----

func (st *Store) Not(a *Term) *Term {
	if a.IsConst() {
		return st.Bool(a.Val == 0)
	}
	if a.Op == "not" {
		return a.Args[0]
	}
	return st.mk("not", BoolSort, a)
}

func (st *Store) And(a, b *Term) *Term {
	if a.IsConst() {
		if a.Val == 0 {
			return a
		}
		return b
	}
	if b.IsConst() {
		if b.Val == 0 {
			return b
		}
		return a
	}
	if a == b {
		return a
	}
	return st.mk("and", BoolSort, a, b)
}

func (st *Store) Or(a, b *Term) *Term {
	if a.IsConst() {
		if a.Val == 1 {
			return a
		}
		return b
	}
	if b.IsConst() {
		if b.Val == 1 {
			return b
		}
		return a
	}
	if a == b {
		return a
	}
	return st.mk("or", BoolSort, a, b)
}

func (st *Store) Ite(c, a, b *Term) *Term {
	if c.IsConst() {
		if c.Val == 1 {
			return a
		}
		return b
	}
	if a == b {
		return a
	}
	if a.S.K == KBool && a.IsConst() && b.IsConst() {
		if a.Val == 1 && b.Val == 0 {
			return c
		}
		if a.Val == 0 && b.Val == 1 {
			return st.Not(c)
		}
	}
	return st.mk("ite", a.S, c, a, b)
}

func (st *Store) Eq(a, b *Term) *Term {
	if a.S != b.S {
		panic(fmt.Sprintf("smt.Eq sort mismatch %v %v", a.S, b.S))
	}
	if a == b && a.S.K != KFP {
		return st.Bool(true)
	}
	if a.IsConst() && b.IsConst() {
		if a.S.K == KFP {
			// structural (bit) equality is not what "=" means for NaN payloads in SMT-LIB:
			// all NaNs are one value. Fold only non-NaN.
			fa, fb := math.Float64frombits(a.Val), math.Float64frombits(b.Val)
			if fa != fa || fb != fb {
				return st.Bool(fa != fa && fb != fb)
			}
			return st.Bool(a.Val == b.Val)
		}
		return st.Bool(a.Val == b.Val)
	}
	if a.S.K == KFP {
		if x, ok := st.isI2F(a); ok {
			if y, ok := st.isI2F(b); ok {
				return st.Eq(x, y)
			}
		}
	}
	if a.S.K == KBool {
		if a.IsConst() {
			if a.Val == 1 {
				return b
			}
			return st.Not(b)
		}
		if b.IsConst() {
			if b.Val == 1 {
				return a
			}
			return st.Not(a)
		}
	}
	if a.ID > b.ID {
		a, b = b, a
	}
	return st.mk("=", BoolSort, a, b)
}

// ---- bit-vectors ----

func (st *Store) BVBin(op string, a, b *Term) *Term {
	if a.S != b.S {
		panic(fmt.Sprintf("smt.BVBin %s sort mismatch %v %v", op, a.S, b.S))
	}
	w := a.S.W
	if a.IsConst() && b.IsConst() {
		x, y := a.Val, b.Val
		var r uint64
		ok := true
		switch op {
		case "bvadd":
			r = x + y
		case "bvsub":
			r = x - y
		case "bvmul":
			r = x * y
		case "bvand":
			r = x & y
		case "bvor":
			r = x | y
		case "bvxor":
			r = x ^ y
		case "bvshl":
			if y >= uint64(w) {
				r = 0
			} else {
				r = x << y
			}
		case "bvlshr":
			if y >= uint64(w) {
				r = 0
			} else {
				r = x >> y
			}
		case "bvashr":
			sx := sext(x, w)
			if y >= uint64(w) {
				if sx < 0 {
					r = ^uint64(0)
				} else {
					r = 0
				}
			} else {
				r = uint64(sx >> y)
			}
		case "bvudiv":
			if y == 0 {
				r = ^uint64(0)
			} else {
				r = x / y
			}
		case "bvurem":
			if y == 0 {
				r = x
			} else {
				r = x % y
			}
		case "bvsdiv":
			sx, sy := sext(x, w), sext(y, w)
			if sy == 0 {
				ok = false
			} else if sy == -1 {
				r = uint64(-sx)
			} else {
				r = uint64(sx / sy)
			}
		case "bvsrem":
			sx, sy := sext(x, w), sext(y, w)
			if sy == 0 {
				ok = false
			} else if sy == -1 {
				r = 0
			} else {
				r = uint64(sx % sy)
			}
		default:
			ok = false
		}
		if ok {
			return st.Const(a.S, r)
		}
	}
	// light identities
	switch op {
	case "bvadd", "bvor", "bvxor":
		if a.IsConst() && a.Val == 0 {
			return b
		}
		if b.IsConst() && b.Val == 0 {
			return a
		}
	case "bvsub", "bvshl", "bvlshr", "bvashr":
		if b.IsConst() && b.Val == 0 {
			return a
		}
	case "bvmul":
		if a.IsConst() && a.Val == 1 {
			return b
		}
		if b.IsConst() && b.Val == 1 {
			return a
		}
	case "bvand":
		if a.IsConst() && a.Val == mask(w) {
			return b
		}
		if b.IsConst() && b.Val == mask(w) {
			return a
		}
	}
	return st.mk(op, a.S, a, b)
}

func (st *Store) BVNeg(a *Term) *Term {
	if a.IsConst() {
		return st.Const(a.S, -a.Val)
	}
	return st.mk("bvneg", a.S, a)
}

func (st *Store) BVNot(a *Term) *Term {
	if a.IsConst() {
		return st.Const(a.S, ^a.Val)
	}
	return st.mk("bvnot", a.S, a)
}

// BVCmp: op in bvult bvule bvugt bvuge bvslt bvsle bvsgt bvsge
func (st *Store) BVCmp(op string, a, b *Term) *Term {
	if a.S != b.S {
		panic(fmt.Sprintf("smt.BVCmp %s sort mismatch %v %v", op, a.S, b.S))
	}
	if a.IsConst() && b.IsConst() {
		w := a.S.W
		x, y := a.Val, b.Val
		sx, sy := sext(x, w), sext(y, w)
		var r bool
		switch op {
		case "bvult":
			r = x < y
		case "bvule":
			r = x <= y
		case "bvugt":
			r = x > y
		case "bvuge":
			r = x >= y
		case "bvslt":
			r = sx < sy
		case "bvsle":
			r = sx <= sy
		case "bvsgt":
			r = sx > sy
		case "bvsge":
			r = sx >= sy
		}
		return st.Bool(r)
	}
	if a == b {
		switch op {
		case "bvule", "bvuge", "bvsle", "bvsge":
			return st.Bool(true)
		default:
			return st.Bool(false)
		}
	}
	return st.mk(op, BoolSort, a, b)
}

func (st *Store) Extract(hi, lo int, a *Term) *Term {
	w := hi - lo + 1
	if lo == 0 && w == a.S.W {
		return a
	}
	if a.IsConst() {
		return st.Const(BV(w), a.Val>>uint(lo))
	}
	return st.mk(fmt.Sprintf("(_ extract %d %d)", hi, lo), BV(w), a)
}

func (st *Store) ZeroExt(to int, a *Term) *Term {
	if to == a.S.W {
		return a
	}
	if a.IsConst() {
		return st.Const(BV(to), a.Val)
	}
	return st.mk(fmt.Sprintf("(_ zero_extend %d)", to-a.S.W), BV(to), a)
}

func (st *Store) SignExt(to int, a *Term) *Term {
	if to == a.S.W {
		return a
	}
	if a.IsConst() {
		return st.Const(BV(to), uint64(sext(a.Val, a.S.W)))
	}
	return st.mk(fmt.Sprintf("(_ sign_extend %d)", to-a.S.W), BV(to), a)
}

// Resize converts a BV to width `to`, sign- or zero-extending according to srcSigned.
func (st *Store) Resize(a *Term, to int, srcSigned bool) *Term {
	switch {
	case to == a.S.W:
		return a
	case to < a.S.W:
		return st.Extract(to-1, 0, a)
	case srcSigned:
		return st.SignExt(to, a)
	default:
		return st.ZeroExt(to, a)
	}
}

func (st *Store) BoolToBV(a *Term, w int) *Term {
	return st.Ite(a, st.Const(BV(w), 1), st.Const(BV(w), 0))
}

// ---- floating point ----

func (st *Store) FPBin(op string, a, b *Term) *Term {
	if a.IsConst() && b.IsConst() {
		x, y := math.Float64frombits(a.Val), math.Float64frombits(b.Val)
		switch op {
		case "fp.add":
			return st.Float(x + y)
		case "fp.sub":
			return st.Float(x - y)
		case "fp.mul":
			return st.Float(x * y)
		case "fp.div":
			return st.Float(x / y)
		}
	}
	// exact integers: the sum/difference of two integers of magnitude <= 2^53 is computed
	// exactly in 64-bit arithmetic and rounded once, exactly like fp.add/fp.sub would
	if x, ok := st.isI2F(a); ok {
		if y, ok := st.isI2F(b); ok {
			switch op {
			case "fp.add":
				return st.IntToFP(st.BVBin("bvadd", x, y), true)
			case "fp.sub":
				return st.IntToFP(st.BVBin("bvsub", x, y), true)
			case "fp.mul":
				xl, xh, ok1 := st.RangeOf(x, true)
				yl, yh, ok2 := st.RangeOf(y, true)
				if ok1 && ok2 && abs64(xl) < 1<<26 && abs64(xh) < 1<<26 && abs64(yl) < 1<<26 && abs64(yh) < 1<<26 {
					return st.IntToFP(st.BVBin("bvmul", x, y), true)
				}
			}
		}
	}
	return st.mk(op+" RNE", FPSort, a, b)
}

func (st *Store) FPNeg(a *Term) *Term {
	if a.IsConst() {
		return st.Float(-math.Float64frombits(a.Val))
	}
	return st.mk("fp.neg", FPSort, a)
}

// FPCmp: op in fp.lt fp.leq fp.gt fp.geq fp.eq
func (st *Store) FPCmp(op string, a, b *Term) *Term {
	if a.IsConst() && b.IsConst() {
		x, y := math.Float64frombits(a.Val), math.Float64frombits(b.Val)
		var r bool
		switch op {
		case "fp.lt":
			r = x < y
		case "fp.leq":
			r = x <= y
		case "fp.gt":
			r = x > y
		case "fp.geq":
			r = x >= y
		case "fp.eq":
			r = x == y
		}
		return st.Bool(r)
	}
	if x, ok := st.isI2F(a); ok {
		if y, ok := st.isI2F(b); ok {
			switch op {
			case "fp.lt":
				return st.BVCmp("bvslt", x, y)
			case "fp.leq":
				return st.BVCmp("bvsle", x, y)
			case "fp.gt":
				return st.BVCmp("bvsgt", x, y)
			case "fp.geq":
				return st.BVCmp("bvsge", x, y)
			case "fp.eq":
				return st.Eq(x, y)
			}
		}
	}
	return st.mk(op, BoolSort, a, b)
}

func (st *Store) FPIsNaN(a *Term) *Term {
	if a.Op == "i2f.s" || a.Op == "i2f.u" {
		return st.Bool(false)
	}
	if a.IsConst() {
		f := math.Float64frombits(a.Val)
		return st.Bool(f != f)
	}
	return st.mk("fp.isNaN", BoolSort, a)
}

func (st *Store) FPIsInf(a *Term) *Term {
	if a.Op == "i2f.s" || a.Op == "i2f.u" {
		return st.Bool(false)
	}
	if a.IsConst() {
		return st.Bool(math.IsInf(math.Float64frombits(a.Val), 0))
	}
	return st.mk("fp.isInfinite", BoolSort, a)
}

// IntToFP converts a BV integer to float64 (RNE).
func (st *Store) IntToFP(a *Term, signed bool) *Term {
	if a.IsConst() {
		if signed {
			return st.Float(float64(sext(a.Val, a.S.W)))
		}
		return st.Float(float64(a.Val & mask(a.S.W)))
	}
	if lo, hi, ok := st.RangeOf(a, signed); ok && lo >= -exactF && hi <= exactF {
		if signed {
			return st.mk("i2f.s", FPSort, a)
		}
		return st.mk("i2f.u", FPSort, a)
	}
	if signed {
		return st.mk("((_ to_fp 11 53) RNE", FPSort, a)
	}
	return st.mk("((_ to_fp_unsigned 11 53) RNE", FPSort, a)
}

// FPToInt converts float64 to a BV of width w following amd64 semantics for signed 64/32 bit
// (out-of-range and NaN give 0x8000…0), and plain truncation modulo for narrower types via int64.
func (st *Store) FPToInt(a *Term, w int, signed bool) *Term {
	if a.IsConst() {
		f := math.Float64frombits(a.Val)
		var r uint64
		if signed {
			switch w {
			case 64:
				r = uint64(int64(f))
			case 32:
				r = uint64(int32(f))
			case 16:
				r = uint64(int16(f))
			case 8:
				r = uint64(int8(f))
			}
		} else {
			switch w {
			case 64:
				r = uint64(f)
			case 32:
				r = uint64(uint32(f))
			case 16:
				r = uint64(uint16(f))
			case 8:
				r = uint64(uint8(f))
			}
		}
		return st.Const(BV(w), r)
	}
	if x, ok := st.isI2F(a); ok {
		// exact integer: conversion back is the integer itself when it fits the target
		if lo, hi, rok := st.RangeOf(x, true); rok {
			fits := false
			if signed {
				lim := int64(1) << uint(w-1)
				fits = w == 64 || (lo >= -lim && hi < lim)
			} else {
				fits = lo >= 0 && (w == 64 || hi <= int64(mask(w)))
			}
			if fits {
				return st.Resize(x, w, true)
			}
		}
	}
	if !signed {
		// Only the in-range behaviour is defined by the Go spec; model in-range precisely via
		// int64 path when value < 2^63, else subtract 2^63 (gc's lowering on amd64).
		two63 := st.Float(9223372036854775808.0)
		lo := st.fpToSBV64(a)
		hi := st.BVBin("bvxor", st.fpToSBV64(st.FPBin("fp.sub", a, two63)), st.Const(BV(64), 1<<63))
		r := st.Ite(st.FPCmp("fp.lt", a, two63), lo, hi)
		return st.Resize(r, w, false)
	}
	r := st.fpToSBV64(a)
	if w == 64 {
		return r
	}
	if w == 32 {
		// CVTTSD2SL: out of int32 range gives 0x80000000
		inr := st.And(st.FPCmp("fp.gt", a, st.Float(-2147483649.0)), st.FPCmp("fp.lt", a, st.Float(2147483648.0)))
		return st.Ite(inr, st.Extract(31, 0, r), st.Const(BV(32), 0x80000000))
	}
	return st.Extract(w-1, 0, st.FPToInt(a, 32, true))
}

func (st *Store) fpToSBV64(a *Term) *Term {
	inr := st.And(st.FPCmp("fp.geq", a, st.Float(-9223372036854775808.0)), st.FPCmp("fp.lt", a, st.Float(9223372036854775808.0)))
	conv := st.mk("((_ fp.to_sbv 64) RTZ", BV(64), a)
	return st.Ite(inr, conv, st.Const(BV(64), 1<<63))
}

// FPRound: mode RTZ (trunc), RTN (floor), RTP (ceil)
func (st *Store) FPRound(mode string, a *Term) *Term {
	if a.IsConst() {
		f := math.Float64frombits(a.Val)
		switch mode {
		case "RTZ":
			return st.Float(math.Trunc(f))
		case "RTN":
			return st.Float(math.Floor(f))
		case "RTP":
			return st.Float(math.Ceil(f))
		}
	}
	if a.Op == "i2f.s" || a.Op == "i2f.u" {
		return a
	}
	return st.mk("fp.roundToIntegral "+mode, FPSort, a)
}

// FPFromBits reinterprets a BV64.
func (st *Store) FPFromBits(a *Term) *Term {
	if a.IsConst() {
		return st.Const(FPSort, a.Val)
	}
	return st.mk("((_ to_fp 11 53)", FPSort, a)
}

// ---- printing ----

func constText(t *Term) string {
	switch t.S.K {
	case KBool:
		if t.Val == 1 {
			return "true"
		}
		return "false"
	case KBV:
		if t.S.W%4 == 0 {
			return fmt.Sprintf("#x%0*x", t.S.W/4, t.Val&mask(t.S.W))
		}
		return fmt.Sprintf("#b%0*b", t.S.W, t.Val&mask(t.S.W))
	case KFP:
		f := math.Float64frombits(t.Val)
		if f != f {
			return "(_ NaN 11 53)"
		}
		return fmt.Sprintf("(fp #b%b #b%011b #x%013x)", t.Val>>63, (t.Val>>52)&0x7ff, t.Val&((1<<52)-1))
	}
	return "?"
}

// Head returns the text for a non-leaf application given the printed args.
func (t *Term) render(args []string) string {
	if t.IsUF || strings.HasPrefix(t.Op, "uf:") {
		if len(args) == 0 {
			return t.Op[3:]
		}
		return "(" + t.Op[3:] + " " + strings.Join(args, " ") + ")"
	}
	op := t.Op
	switch op {
	case "i2f.s":
		return "((_ to_fp 11 53) RNE " + args[0] + ")"
	case "i2f.u":
		return "((_ to_fp_unsigned 11 53) RNE " + args[0] + ")"
	}
	if strings.HasPrefix(op, "((_ ") {
		// conversion heads carrying an optional rounding mode: "((_ to_fp 11 53) RNE"
		return op + " " + strings.Join(args, " ") + ")"
	}
	return "(" + op + " " + strings.Join(args, " ") + ")"
}

// Inline prints t fully inlined (for debugging / small terms).
func (t *Term) Inline() string {
	switch t.Op {
	case "const":
		return constText(t)
	case "var":
		return t.Name
	}
	args := make([]string, len(t.Args))
	for i, a := range t.Args {
		args[i] = a.Inline()
	}
	return t.render(args)
}

func (t *Term) String() string {
	s := t.Inline()
	if len(s) > 200 {
		return s[:200] + "…"
	}
	return s
}

var _ = bits.Len

// IsI2F is the exported form of isI2F.
func (st *Store) IsI2F(t *Term) (*Term, bool) { return st.isI2F(t) }
