#!/usr/bin/env python3
"""Regenerates /verif/MANIFEST.json from the table below (kept next to the checks so that the
claims and the not-applicable list stay in step with what is actually registered)."""
import json

TECH = "go/ssa symbolic execution of the real code + SMT (z3), native replay of counterexamples"

# property -> (level text, level note)
CLAIMED = {
    "C01": (
        "Bounded symbolic execution of the real String/Bytes With/Without/Has/Count/Where kernels (go/ssa) against a "
        "denotation oracle computed from raw fields: for every content, offset, prior operation and probe element within the "
        "bound the result denotes exactly the mathematical set; decided per path by SMT, counterexamples replayed natively. "
        "Listed known findings (sequence->GenericSet fall-back, sparse Bytes) are excluded by input class and still reported.",
        "L<=3, offset in [-2,2], probe index in [-4,6], <=1 prior operation; frozen replaced by a list model; the 8x8 set-operator "
        "dispatch matrix, relations in every pair of column layouts (literal vs joined), the Array kernel (0..3 items, offsets, "
        "holes), the Dict kernel (1..3 entries, several values per key) and the subset comparisons through the real compiler (10 operators x 7x7 operand forms) are separate harnesses (DESIGN.md §4 C01)"),
    "C02": (
        "Bounded symbolic execution of every Equal and Hash implementation: symmetry/reflexivity of Equal and Equal => equal Hash "
        "(for a symbolic seed, hash primitives uninterpreted) on all pairs of an 18-kind universe, and 12 pairs of construction "
        "paths that reach one denotation (constructor vs set builder, duplicates offered to the builder, attribute order, "
        "without-then-rebuild, join result vs literal) must be Equal both ways, hash alike, count alike, collapse to one set "
        "member and be unordered by <; SMT-decided per path, counterexamples replayed natively (with the real hash functions).",
        "universe as C06; cells small symbolic integers/chars; frozen's own use of Hash is modelled away (the obligation Equal => "
        "same Hash that arr.ai owes it is what is checked); printing identically is checked only through C12"),
    "C03": (
        "Bounded symbolic execution of the real String/Bytes with/Without code (go/ssa) with real slice aliasing: for every base "
        "content, offset and operation argument within the bound, deriving two values from one parent leaves the parent and the "
        "first derivative unchanged; decided per path by SMT, counterexamples replayed natively.",
        "strings/bytes: L<=3, offset in [-2,2], index in [-4,6], histories of 2-3 operations; arrays: <=3 items, offset in [-1,1], "
        "index in [-1,4], histories of 2-3 with/without operations; dictionaries (<=2 entries) and generic tuples over {a,b,c} "
        "likewise; relations: two joins from one join result; frozen modelled; "
        "Go 1.24 append growth rule"),
    "C04": (
        "Bounded symbolic execution of the eight real join operators (New*Expr -> BinExpr.Eval -> Joiner -> Relation.Join / "
        "positionalRelation joins / GenericJoin / Merge) on relations over every partition shape and both column orders, against "
        "the set-comprehension definition computed in the harness (count, membership of every expected tuple, equality); "
        "SMT-decided per path, counterexamples replayed natively.",
        "4 left x 5 right headings over {a,b,c,d}, 1..2 (thorough 1..3) rows per side, cells in {0,1}; arrays and dictionaries "
        "of 2..3 members as left operands of all 8 operators (GenericJoin path); nest (|b|bs, |b,c|bcs, "
        "~|a|rest, single-attribute nest, keyed and unary relations, join results with unsorted columns) through the real "
        "compiler on relations of 1..3 rows, with rel.Unnest as the inverse (the unnest syntax itself does not compile: known "
        "finding under C10); sugar-heading operands (@, @item ...) are not in the registered bound; rank is checked under C06"),
    "C05": (
        "Bounded symbolic execution of the real SetCall/CallAll (String, Bytes, Array, Dict, Relation), SeqArrowExpr.Eval (>>), "
        "Concatenate (++) and OffsetExpr.Eval (n\\seq) against a denotation oracle on (index, value) pairs: unique-value-or-error "
        "for every key, keys/offsets/holes preserved by >>, shift laws for ++ and offsets; SMT-decided per path, counterexamples "
        "replayed natively. Known findings (++ index collision, sparse Bytes) are excluded by input class and still reported.",
        "sequences of length 1..3 with one possible hole, offsets in [-2,2], arguments integer/fractional/non-number; dicts and "
        "{|@,x|} relations of 1..2 entries with duplicate keys; element transformer an uninterpreted function; safe tails (c(k)?:f, t.n?:f, chained "
        "and nested) through the real compiler with symbolic keys and offsets; >>> with an uninterpreted function of (index, element) on sequences, >> and >>> on dictionaries (a key may carry several values) and {|@,x|} relations; ++ with a left string carrying one or two interior holes; :> is outside the registered bound"),
    "C06": (
        "Bounded symbolic execution of every Less/Equal/Kind implementation over an 18-kind value universe built through the real "
        "constructors: trichotomy on all kind pairs, transitivity on triples inside the number/tuple/sequence families, and Rank/"
        "OrderBy (with GOROOT sort interpreted) against 'number of strictly smaller keys' / non-decreasing permutation, and the OrderedValues() sequence used for printing sets of mixed kinds is non-decreasing under <; "
        "SMT-decided per path, counterexamples replayed natively.",
        "numbers: any non-NaN float64 at top level, integers in [-2,2] nested; sequences L<=2; sets/dicts/relations <=2 members; "
        "relations of 2..4 rows for rank/orderby; NaN excluded by assumption"),
    "C07": (
        "Bounded symbolic execution of the real parser, compiler and evaluator on enumerated program texts, each evaluated twice: "
        "with every frozen set/map and every Go map enumerated in insertion order, and in order-free mode where a bounded number "
        "of enumerations take another order (choice explored exhaustively within the bound). Both evaluations must fail alike "
        "and give Equal values (bit-identical floats; identical fu.Repr/String output for concrete numbers). A counterexample is "
        "confirmed natively by evaluating it in ten fresh processes (fresh hash seeds, fresh Go map orders) and comparing output.",
        "36 programs over collections padded to 9..11 members (frozen keeps up to 8 in insertion order whatever the seed), x in "
        "[-2,2] symbolic; float sum/mean with one arbitrary finite addend; at most 1 deviating enumeration per evaluation "
        "(2 for the float and superimposed harnesses in the thorough tier), a deviation being any permutation of <=3 members or one transposition of more; stdlib functions, --out "
        "and import order are outside; superimposed sequence items are a listed known finding"),
    "C08": (
        "Bounded symbolic execution of the real wbnf parser, syntax.Compile and Expr.Eval on enumerated concrete program texts "
        "whose numbers come from a scope of symbolic values: let / arrow / application triples over 20 pattern shapes, 24 "
        "sugared literals against their spelled-out tuple sets (folded and unfolded), 13 implicit-binder forms against the "
        "explicit \\x form, 12 capture-avoiding substitutions, every ordered pair of binary operators against the documented "
        "parenthesisation, 20 prefix/postfix/tail/chain programs, 12 cond/&&/||/if programs whose unselected branch fails, "
        "-> chains mixing implicit and explicit binders against the computed number, and A && B / A || B over 9x9 operand atoms "
        "against the operand the language definition selects; "
        "every program also in a rendering with redundant parentheses, comments and white space. Both sides must fail alike "
        "or give Equal values for every scope value in the bound; SMT-decided per path, native replay.",
        "program texts are enumerated, not symbolic (the lexer is regexp-driven); numbers x,y,z in [-2,2] and sets/tuples/arrays "
        "built from them; operands of / % ^ are literals; a dict literal with a repeated key is rejected by design and excluded; "
        "macros, imports, xstr templates and `let rec` are outside the registered bound"),
    "C09": (
        "Bounded symbolic execution of the real ArrayPattern/TuplePattern/SetPattern/ExprPattern/IdentPattern/"
        "ExtraElementPattern/FallbackPattern.Bind and Scope.MatchedUpdate against a reference matcher written from the language "
        "definition: Bind succeeds iff the reference matches, every name is bound to the reference value, ...rest is exactly the "
        "remainder, a fallback (an outer variable) is used only for an absent component; SMT-decided per path, native replay.",
        "8 array patterns x arrays of 0..3 items, 6 tuple patterns x tuples over {x,y,z}, 4 set patterns x subsets of {0,1,2}; "
        "9 dictionary patterns x dictionaries over every subset of 3 keys and 11 nested pattern/value pairs go through the real parser "
        "and compilePattern (in let and as function parameter); more than one optional-or-rest entry per dict pattern is rejected "
        "by design and excluded; repeated names and cond arms are outside the registered bound"),
    "C10": (
        "Partial (operator kernel): bounded symbolic execution of the 21 binary and 6 unary operator expressions that can be built "
        "without the parser, applied to every pair of kinds of the value universe (ill-typed operands included), and of two-"
        "attribute tuple literals over the sugar attribute names with values of 5 kinds (folded and evaluated): Eval returns a "
        "value or an error, never a Go panic; hangs would exceed the executor's step budget or be reported as deadlocks. Crashes "
        "are replayed natively. Listed known findings (colliding array indices, ill-typed sugar tuples) are reported as such.",
        "26x26 operand kinds (the 18-kind universe plus 8 odd shapes: string-keyed dict, non-numeric @, union of kinds, nested/"
        "sparse arrays, sparse string, native function) with concrete representative numbers; 145 odd, ill-typed or malformed "
        "program texts through the real parser/compiler/evaluator; 'for all byte strings offered as source' (lexer/parser/"
        "compiler), the stdlib functions and the CLI/shell recover paths are outside; the import-cycle hang is checked under C16"),
    "C11": (
        "Narrow: two guest goroutines under the executor's cooperative scheduler (all interleavings within a context bound of 2 "
        "preemptions) share one value and perform the first use of its lazily cached state (GenericTuple Names/ordered names/"
        "bucket, positionalRelation index cache through two concurrent joins); a vector-clock happens-before detector over the "
        "interpreted memory reports unordered conflicting accesses, and results are compared with the serial ones. A third harness "
        "compiles 10 programs (tuple maps, joins, nest, orderby, rank, where ...) with the real parser/compiler and evaluates the "
        "one compiled expression from two goroutines over a shared tuple and relation. Races are confirmed natively with "
        "`go test -race`.",
        "2 goroutines x 1 operation or 1 whole evaluation; preemption at synchronisation operations only; sync.Once/Mutex/Cond/WaitGroup/atomic/channels "
        "modelled per the Go memory model; the std-scope/bindata lazies in syntax and frozen's parallel fan-out are outside"),
    "C12": (
        "Partial (string-literal codec kernel): bounded symbolic execution of the real printer (String/Bytes/Array.Format, "
        "reprString/reprStr/reprEscape) and the real literal reader syntax.parseArraiString: every string of 1..2 arbitrary "
        "Unicode scalars printed and read back gives the original, and offsets are printed as the N\\ prefix for strings, arrays "
        "and byte arrays; SMT-decided per path, counterexamples replayed natively. 20 composite shapes (numbers, strings with "
        "awkward characters, offset sequences, holes, unusual attribute names, dicts, mixed sets, relations, nesting) are printed "
        "by fu.Repr and read back by the real wbnf parser and compiler: Equal both ways and printed identically again.",
        "strings of 1..2 runes over all Unicode scalar values; offsets in [-3,3]; fmt is replaced by the executor's fmt-lite "
        "(verbs %s %v %d %c %02x, Formatter/Stringer dispatch); composite shapes are enumerated with integers in [-2,2] that "
        "are concretised when printed (the lexer needs concrete text); closures are not data and are outside"),
    "C13": (
        "Partial: bounded symbolic execution of the real translate.Translator.ToArrai/FromArrai pair (strict mode) on decoded "
        "documents, of FromArrai/ToArrai on every finite float64 (FP theory), and of //bits.mask / //bits.set; SMT-decided per "
        "path, counterexamples replayed natively; the server wire format as jsonUnescape(jsonEscape(v)) = v with encoding/json replaced by its round-trip contract. encoding/json, yaml.v3 and CSV text codecs are outside.",
        "documents of depth <=2 (width 2 at the top, 1 nested); every finite float64 as a number; bits: all n < 2^8 and all "
        "subsets of {0..5}; wire format: finite float64, strings, booleans, tuples and dense arrays of depth <=2 (sets, offsets, holes excluded); Go maps iterate in insertion order in the executor"),
    "C14": (
        "Bounded symbolic execution of the real //seq helpers (stdSeqContains/HasPrefix/HasSuffix/TrimPrefix/TrimSuffix/Sub/Split/"
        "Join, array helpers, Go strings/bytes functions interpreted from GOROOT) on abstract sequences over a 3-symbol alphabet "
        "in all three representations against textbook definitions; SMT-decided per path, counterexamples replayed natively.",
        "subject length <=4 (predicates) / <=3, pattern <=3 / <=2; alphabet {0,1,2}; strings.Index/bytes.Index and UTF-8 coding "
        "are executor intrinsics written from their definitions"),
    "C16": (
        "Partial: (1) path confinement - the program //{./Q} or //{/Q} with Q a symbolic string is compiled by the real Compile -> "
        "compilePackage -> path.Clean -> importLocalFile -> findRootFromModule -> fileValue (lexing on a concrete twin of the "
        "same length) against a recording read-only afero.Fs: every file the compilation tries to read lies beneath the module "
        "root (the script's directory without a module), a root import without a module fails without reading; (2) the real "
        "importCache.getOrAdd under the executor's scheduler: two concurrent importers of one key agree and import once (also "
        "while a third goroutine imports another key and broadcasts on the shared condition variable), a "
        "failing import wakes its waiters, a re-entrant import (cycle of length 1 or 2) must return instead of waiting on itself "
        "(listed known finding: it hangs; confirmed natively by timeout).",
        "Q of 1..4 (thorough 1..6) characters over { . / space a }, script in /m/a or /m, with and without /m/go.mod; cache: 2 "
        "goroutines, context bound 2; value consistency across spellings and external/module imports are outside"),
    "C17": (
        "Bounded exploration of client histories x interleavings of the real engine.Start actor loop (Update/Observe/cancel/"
        "Hangup/Stop, watcher.update/close) as guest goroutines under the executor's scheduler: every request returns, accepted "
        "updates are seen by each live observer in order since it subscribed, an observer is closed at most once and hears "
        "nothing afterwards, failing updates are reported, no deadlock or crash. Deadlocks/crashes are confirmed natively.",
        "1 client x 1..3 operations out of 8, <=3 observers, context bound 2 (3 thorough); expressions are stubs whose failure is "
        "chosen per history; logrus and the run context are no-op stubs; gRPC/WebSocket transport outside"),
    "C19": (
        "Bounded exploration by the symbolic executor of the real outputValue/outputTupleDir/outputFile/configureOutput/"
        "applyIfExistsConfig/applyFilesFields/getDirField against a harness-written afero.Fs whose pre-existing state and whose "
        "failing call are chosen per run, with every mutation logged: a clear-cut invalid description is an error and mutates "
        "nothing (known finding: the validation pass creates directories), an injected I/O error is always reported, and every "
        "mutated path lies beneath the target.",
        "dictionaries of 1..2 entries over 6 entry kinds (config tuples with every ifExists value x payload), 4 pre-existing "
        "states, one fault at any of the first 6 filesystem calls; the exact final tree under the ifExists rules (merge/replace/"
        "ignore semantics) is not compared; --out=file mode not covered"),
    "C20": (
        "Bounded exploration by the symbolic executor of the real RunExpr/ForeachLeaf/isLiteralTrue/isLiteralFalse/calcStats over "
        "every result tree of depth <=2 and width <=2 built through the real constructors (tuples, offset arrays, dicts; leaves "
        "true/false/number/plain set), against a census known by construction: one result per leaf, distinct paths, counts add "
        "up, run fails iff some leaf is not true, no panic (sparse arrays included); two leaves sharing one path (a dictionary key with two values, an attribute named like a nested path) are two results.",
        "depth <=2, width <=2; array offsets in [-2,2]; the directory walk (getTestFiles), Compile and the report formatting are "
        "outside the claim"),
}

NOT_APPLICABLE = {
    "C15": "equivalence of a source-tree evaluation and an .arraiz bundle evaluation: the bundle side runs through archive/zip, afero/zipfs and a regexp over go.mod, none of which the executor can interpret, and no scalar kernel decides the equivalence (DESIGN.md §5)",
    "C18": "every route into the sandbox goes through the standard library scope, which the interpreter loads from an embedded .arraiz zip bundle (embed.FS + archive/zip + the bundle runner): the executor got as far as (embed.FS).Open and cannot go further; the parser-free part (which scope three construction sites hand to the evaluator) decides nothing about indirect routes (DESIGN.md §5)",
}

PENDING = "check not registered yet in this revision (harness under construction); see DESIGN.md §4"


def main():
    props = [json.loads(l) for l in open('/verif/properties.jsonl')]
    checks = []
    for pid in sorted(CLAIMED):
        text, note = CLAIMED[pid]
        checks.append({
            "property_id": pid,
            "quick_cmd": f"./check {pid} --tier quick",
            "thorough_cmd": f"./check {pid} --tier thorough",
            "evidence_file": f"/verif/evidence/{pid}.json",
            "replay_cmd_template": f"./check {pid} --replay {{path}}",
            "engine": "symgo",
            "level_claimed": {"category": "model_checking", "text": text, "design_ref": "DESIGN.md §4 " + pid},
            "level_note": note,
            "technique": TECH,
        })
    na = []
    for p in props:
        pid = p["id"]
        if pid in CLAIMED:
            continue
        na.append({"property_id": pid, "reason": NOT_APPLICABLE.get(pid, PENDING)})
    m = {
        "version": 1,
        "setup_cmd": "cd /verif/engine && GOFLAGS=-mod=mod GOPROXY=off go build -o /verif/bin/symgo ./cmd/symgo",
        "hooks": {
            "guard": "verif",
            "enable": "no source hooks: harnesses and shims are injected with go/packages Overlay and go test -overlay",
            "baseline_off_cmd": "cd /repo && GOFLAGS=-mod=mod GOPROXY=off go test -vet=off -count=1 ./...",
            "source_commits": [],
            "add_only": True,
        },
        "engines": [{
            "name": "symgo", "path": "/verif/engine", "serves_properties": sorted(CLAIMED),
            "kind_free_text": "bounded symbolic executor for Go SSA (forked go/ssa/interp) with SMT-decided branches and assertions",
        }],
        "checks": checks,
        "not_applicable": sorted(na, key=lambda x: x["property_id"]),
        "notes": "exit codes of ./check: 0 held, 1 VIOLATION, 2 broken check, 3 bound not run clean (incomplete paths)",
    }
    json.dump(m, open('/verif/MANIFEST.json', 'w'), indent=1)
    print("claimed:", sorted(CLAIMED))


if __name__ == '__main__':
    main()
