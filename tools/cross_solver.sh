#!/bin/sh
# Usage: tools/cross_solver.sh <ID> [check args]
# Dumps the SMT-LIB2 transcripts of one check and replays them with a second solver
# (cvc5 --incremental), comparing the check-sat answer sequences with the primary solver's
# (z3-new). A transcript holds one solver process per 400 paths; it is split at the process
# headers first. Prints one summary line.
ID="$1"; shift
D=$(mktemp -d /tmp/verif-smt-XXXXXX)
cd /verif && ./check "$ID" -no-replay -workers 4 -dump-smt "$D" "$@" >/dev/null 2>&1
segs=0; za=0; ca=0; cu=0; dis=0
for f in "$D"/*.smt2; do
  grep -v "set-option :timeout" "$f" | awk -v p="$f" '/^\(set-option :print-success false\)/{n++} {print > (p "." n ".seg.smt2")}'
  for s in "$f".*.seg.smt2; do
    z3-new -T:900 "$s" 2>/dev/null | grep -E "^(sat|unsat|unknown)$" > "$s.z3new"
    cvc5 --incremental --produce-models --tlimit-per=30000 "$s" 2>/dev/null | grep -E "^(sat|unsat|unknown)$" > "$s.cvc5"
    segs=$((segs+1)); za=$((za+$(wc -l < "$s.z3new"))); ca=$((ca+$(wc -l < "$s.cvc5")))
    cu=$((cu+$(grep -c unknown "$s.cvc5")))
    dis=$((dis+$(paste "$s.z3new" "$s.cvc5" | awk 'NF==2 && $1!="unknown" && $2!="unknown" && $1!=$2' | wc -l)))
  done
done
echo "$ID: solver-sessions=$segs z3-new-answers=$za cvc5-answers=$ca cvc5-unknown=$cu definite-disagreements=$dis"
rm -rf "$D"
