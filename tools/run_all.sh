#!/bin/sh
# runs every registered quick check and prints one line per property
cd /verif
for id in $(python3 -c "import json;print(' '.join(c['property_id'] for c in json.load(open('MANIFEST.json'))['checks']))"); do
  s=$(date +%s)
  out=$(./check $id --tier ${1:-quick} 2>&1); rc=$?
  e=$(date +%s)
  echo "$id rc=$rc $((e-s))s $(echo "$out" | grep -c KNOWN-FINDING) known $(echo "$out" | grep -c '^VIOLATION') viol"
  if [ $rc -ne 0 ]; then echo "$out" | grep -v "^KNOWN" | tail -8; fi
done
