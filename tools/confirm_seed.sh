#!/bin/sh
# Usage: tools/confirm_seed.sh <seed-id> <demo-destination relative to repo, e.g. rel/zz_demo_test.go>
# Confirms in a scratch worktree that the seeded change (1) applies and compiles, (2) keeps the
# existing tests of the touched packages passing (network tests excepted), (3) makes the demo fail,
# and (4) that the demo passes without it. Prints one summary line; removes the worktree.
set -u
ID="$1"; DEST="$2"
SEED=/verif/seeded/$ID
WT=/tmp/confirm-$ID
export GOFLAGS=-mod=mod GOPROXY=off
git -C /repo worktree remove --force "$WT" >/dev/null 2>&1
git -C /repo worktree add -q --detach "$WT" HEAD || exit 2
cd "$WT" || exit 2
PKG=./$(dirname "$DEST")/
cp "$SEED/demo_test.go" "$DEST"
go test -vet=off -count=1 "$PKG" -run 'Demo' > /tmp/confirm-$ID.clean.log 2>&1; CLEAN=$?
git apply "$SEED/patch.diff" || { echo "SEED $ID: patch does not apply"; exit 2; }
go test -vet=off -count=1 "$PKG" -run 'Demo' > /tmp/confirm-$ID.mut.log 2>&1; MUT=$?
rm -f "$DEST"
go build ./... > /tmp/confirm-$ID.build.log 2>&1; BUILD=$?
go test -vet=off -count=1 ./rel/ ./syntax/ ./pkg/... ./translate/ ./engine/ ./tools/ 2>&1 | grep -E '^(--- FAIL|FAIL|ok)' > /tmp/confirm-$ID.suite.log
FAILS=$(grep -E '^--- FAIL' /tmp/confirm-$ID.suite.log | grep -v -E 'TestPackageExternalImportModule|TestBundleFiles' | wc -l)
cd /
git -C /repo worktree remove --force "$WT"
echo "SEED $ID: build=$BUILD demo_on_clean=$CLEAN(0 expected) demo_on_mutant=$MUT(nonzero expected) unexpected_suite_failures=$FAILS(0 expected)"
