#!/bin/sh
# Usage: tools/try_seed.sh <seed-id> <property> [extra check args]
# Applies the seeded change to /repo, runs the property's quick check, and reverts. The evidence
# file of the property is put back afterwards: committed evidence describes the unchanged tree.
ID="$1"; PROP="$2"; shift 2
git -C /repo apply /verif/seeded/$ID/patch.diff || exit 2
cp /verif/evidence/$PROP.json /tmp/try-evidence-$PROP.json 2>/dev/null
/verif/check "$PROP" --tier quick "$@" > /tmp/try-$ID.log 2>&1; RC=$?
git -C /repo checkout -- .
[ -f /tmp/try-evidence-$PROP.json ] && mv /tmp/try-evidence-$PROP.json /verif/evidence/$PROP.json
echo "SEED $ID vs $PROP: exit=$RC $(grep -c '^VIOLATION' /tmp/try-$ID.log) violation line(s)"
grep -E '^VIOLATION|^  harness' /tmp/try-$ID.log | head -6
