#!/bin/sh
# runs the thorough tier of the given (default: all registered) checks, one after the other, with a cap per check
cd /verif
CAP=${CAP:-5400}
IDS="$@"
[ -z "$IDS" ] && IDS=$(python3 -c "import json;print(' '.join(c['property_id'] for c in json.load(open('MANIFEST.json'))['checks']))")
for id in $IDS; do
  s=$(date +%s)
  timeout $CAP ./check $id --tier thorough > /tmp/thorough-$id.log 2>&1; rc=$?
  e=$(date +%s)
  echo "$id rc=$rc $((e-s))s $(grep -c KNOWN-FINDING /tmp/thorough-$id.log) known $(grep -c '^VIOLATION' /tmp/thorough-$id.log) viol"
done
