package syntax

import (
	"github.com/arr-ai/arrai/rel"
)

// C01 (continued): the subset comparisons (<) (>) (<=) (>=) (<>) and their negations, compiled by
// the real parser/compiler, on operands that denote the same or nested sets in different
// representations (a string, the same members after a with/without detour, an offset string,
// plain sets), against the relation computed from the enumerated members.

func verifC01Members(s rel.Set) []rel.Value {
	var ms []rel.Value
	for e := s.Enumerator(); e.MoveNext(); {
		ms = append(ms, e.Current())
	}
	return ms
}

func verifC01SubsetRef(a, b []rel.Value) bool {
	for _, m := range a {
		found := false
		for _, n := range b {
			if m.Equal(n) {
				found = true
			}
		}
		if !found {
			return false
		}
	}
	return true
}

// verif:bound VerifC01SubsetComparisons 10 comparison operators x 7x7 operand forms (string of two symbolic chars in {a,b}, the same members after with/without of a third char tuple, a one-char string, a one-char string at offset 1, the empty set, {1,2}, {1,2,3} without 3)
// verif:cover VerifC01SubsetComparisons proper-subset same-members unrelated
func VerifC01SubsetComparisons() {
	c1 := rune('a' + verifNondetIntIn(0, 1))
	c2 := rune('a' + verifNondetIntIn(0, 1))
	mk := func(i int) rel.Set {
		switch i {
		case 0:
			return rel.NewString([]rune{c1, c2})
		case 1:
			z := rel.NewStringCharTuple(0, 'z')
			return rel.NewString([]rune{c1, c2}).With(z).Without(z)
		case 2:
			return rel.NewString([]rune{c1})
		case 3:
			return rel.NewOffsetString([]rune{c2}, 1)
		case 4:
			return rel.None
		case 5:
			return rel.MustNewSet(rel.NewNumber(1), rel.NewNumber(2))
		default:
			return rel.MustNewSet(rel.NewNumber(1), rel.NewNumber(2), rel.NewNumber(3)).Without(rel.NewNumber(3))
		}
	}
	a := mk(verifChoice(7))
	b := mk(verifChoice(7))
	ma, mb := verifC01Members(a), verifC01Members(b)
	ab := verifC01SubsetRef(ma, mb)
	ba := verifC01SubsetRef(mb, ma)
	proper := ab && len(ma) < len(mb)
	properRev := ba && len(mb) < len(ma)
	switch {
	case proper || properRev:
		verifCover("proper-subset")
	case ab && ba:
		verifCover("same-members")
	default:
		verifCover("unrelated")
	}
	type cmp struct {
		op   string
		want bool
	}
	cases := []cmp{
		{"(<)", proper}, {"(>)", properRev}, {"(<=)", ab}, {"(>=)", ba}, {"(<>)", proper || properRev},
		{"!(<)", !proper}, {"!(>)", !properRev}, {"!(<=)", !ab}, {"!(>=)", !ba}, {"!(<>)", !(proper || properRev)},
	}
	c := cases[verifChoice(len(cases))]
	sc := rel.EmptyScope.With("a", a).With("b", b)
	out := verifC08Eval("a "+c.op+" b", sc)
	verifAssert("subset-comparison-evaluates", !out.failed)
	if out.failed {
		return
	}
	got, isSet := out.v.(rel.Set)
	verifAssert("subset-comparison-boolean", isSet)
	if !isSet {
		return
	}
	verifAssert("subset-comparison-exact", got.IsTrue() == c.want)
}
