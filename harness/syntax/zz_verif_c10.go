package syntax

import (
	"strconv"

	"github.com/arr-ai/arrai/rel"
)

// C10 (continued): odd and ill-typed source programs through the real parser, compiler and
// evaluator: a value or an error, never a Go panic. The texts are enumerated; the scope supplies
// symbolic numbers and values of several kinds.

var verifC10Programs = []string{
	"r unnest bs",
	"[1, 2](5)", "\"abc\"(10)", "{}(1)", "(1)(2)", "x(y)", "t(0)", "s(x)",
	"x -> \\[a] a", "x -> \\(a: p) p", "t -> \\[a] a", "s -> \\{a} a",
	"cond {}", "cond x {}", "cond x {1: 2}", "cond {x: 1}",
	"s single", "[] single", "\"\" count", "x count", "t count",
	"x\\y", "\"a\" \\ 2", "x\\\"ab\" ++ \"c\"", "[1, , 3]", "[1, , 3] >> . + 1", "[1, , 3] ++ [4]",
	"{x: 2, x: 3}", "(:q)", "q", "let [a, a] = [x, y]; a", "let (a: a, b: a) = (a: x, b: y); a",
	"1 if x", "s orderby \\v v(0)", "s order \\a a", "{\"a\": 1}.a", "t.zz", "t.\"a\"", "x.a",
	"r nest |q|c", "r nest |a|a", "x nest |a|b", "s rank (a: .)", "r rank (a: .zz)",
	"-\"a\"", "!t", "^x", "x <: y", "s (<) x", "x with y", "\"a\" with x", "<<1>> with 300",
	"<<300>>", "<<\"a\", 1, <<2>>>>", "<<x>>", "<<s>>",
	"$\"${x}\"", "$\"${s::, }\"", "$\"${t}\"", "$\"${x:03d}\"", "$\"${s:s:}\"",
	"x => . + 1", "t => .", "x >> .", "t :> .(0)", "s :> .", "x where .", "s where x", "r where .a(1)",
	"s sum t", "s max \\v t", "s mean .", "{} mean .", "{} max .", "{} median .", "s median \\v [v]",
	"x +> y", "t +> x", "x <&> y", "r <&> x", "r <-> s", "r -&- t", "s --- s",
	"{|a| (1, 2)}", "{|a, a| (1, 2)}", "{|a| }", "{|| ()}", "{(a: 1), (b: 2)} <&> r",
	"[x, y] orderby .", "\"ba\" orderby .", "x orderby .", "t orderby .",
	"x ^ t", "x % 0", "x // 0", "x / 0", "0 ^ -1", "x -% 0",
	"(\\z z)(1, 2)", "(\\[a, b] a)([1])", "\\z", "(\\z z)", "x(\\z z)", "(\\z z)(\\w w)(x)",
	"s => \\{a} a", "s -> \\{a, ...} a", "let {a, b} = s; a",
	"r => (:.a, :.b) where .a", "r => .a => .b", "(r => .bs) <&> r",
	"true && ", "x ||", "(", "[", "{|", "\"unterminated", "1 2", "let = 1; 2", "\\", "%", "x.",
}

// verif:bound VerifC10SourcePrograms 145 odd, ill-typed or malformed program texts (calls on non-functions, patterns against the wrong kind, empty cond, reductions over the wrong kind, holes, duplicate keys, nest/unnest/rank with wrong attributes, byte literals out of range, expression strings with odd formats, joins on non-relations, division by zero, malformed syntax) over a scope with numbers x,y in [-2,2], a tuple t, a set s and a nested relation r
// verif:cover VerifC10SourcePrograms value error
func VerifC10SourcePrograms() {
	idx := verifChoice(len(verifC10Programs))
	src := verifC10Programs[idx]
	label := "source-no-crash-" + strconv.Itoa(idx) // one label per program text
	x, y := verifNondetIntIn(-2, 2), verifNondetIntIn(-2, 2)
	nx, ny := rel.NewNumber(float64(x)), rel.NewNumber(float64(y))
	t := rel.NewTuple(rel.NewAttr("a", nx), rel.NewAttr("b", ny))
	s := rel.MustNewSet(nx, ny, rel.NewNumber(5))
	r := rel.MustNewSet(rel.NewTuple(rel.NewAttr("a", nx), rel.NewAttr("bs", rel.MustNewSet(rel.NewTuple(rel.NewAttr("b", ny))))))
	sc := rel.EmptyScope.With("x", nx).With("y", ny).With("t", t).With("s", s).With("r", r)
	// the `unnest` syntax is parsed but not compiled: compileArrow panics "unfinished"
	verifKnown("KF-C10-unnest-unfinished", "*", src == "r unnest bs")
	out := verifC08Eval(src, sc)
	verifAssert(label, !out.panicked)
	if out.panicked {
		return
	}
	if out.failed {
		verifCover("error")
	} else {
		verifCover("value")
	}
}
