package syntax

import (
	"github.com/arr-ai/arrai/rel"
)

// C09 (continued): dictionary patterns and nested patterns, compiled from source by the real
// compilePattern and matched by the real Bind code, against a reference matcher written from the
// language definition. The value comes from the scope (symbolic numbers), the pattern from the
// program text.

type verifC09Entry struct {
	key      string // "a", "b", "c"
	kind     int    // 0 bind name, 1 literal 1, 2 optional with fallback 7
	bindName string
}

var verifC09DictPatterns = []struct {
	text    string
	entries []verifC09Entry
	rest    bool
}{
	{`{"a": p}`, []verifC09Entry{{"a", 0, "p"}}, false},
	{`{"a": p, "b": q}`, []verifC09Entry{{"a", 0, "p"}, {"b", 0, "q"}}, false},
	{`{"a": p, "b"?: q:7}`, []verifC09Entry{{"a", 0, "p"}, {"b", 2, "q"}}, false},
	{`{"b"?: q:7, "a": p}`, []verifC09Entry{{"b", 2, "q"}, {"a", 0, "p"}}, false},
	{`{"a": p, ...r}`, []verifC09Entry{{"a", 0, "p"}}, true},
	{`{"a": 1, "b": q}`, []verifC09Entry{{"a", 1, ""}, {"b", 0, "q"}}, false},
	{`{"a"?: p:7}`, []verifC09Entry{{"a", 2, "p"}}, false},
	{`{...r}`, nil, true},
	{`{"a": p, "b": q, ...r}`, []verifC09Entry{{"a", 0, "p"}, {"b", 0, "q"}}, true},
}

// More than one optional entry or ...rest in one dictionary pattern is rejected by design
// ("non-deterministic pattern is not supported yet"); such patterns are not in the bound.

// verif:bound VerifC09DictPattern 9 dictionary patterns (names, a literal, one optional entry with a fallback, ...rest; 0..3 entries; at most one optional-or-rest entry, more are rejected by design) against dictionaries over every subset of the keys a,b,c with symbolic values in [0,2]; used in let and as a function parameter
// verif:cover VerifC09DictPattern match no-match fallback-used rest
func VerifC09DictPattern() {
	pat := verifC09DictPatterns[verifChoice(len(verifC09DictPatterns))]
	have := map[string]int{}
	var entries []rel.DictEntryTuple
	for _, k := range []string{"a", "b", "c"} {
		if verifChoice(2) == 1 {
			v := verifNondetIntIn(0, 2)
			have[k] = v
			entries = append(entries, rel.NewDictEntryTuple(rel.NewString([]rune(k)), rel.NewNumber(float64(v))))
		}
	}
	d := rel.MustNewDict(false, entries...)
	sc := rel.EmptyScope.With("d", d)

	// reference matcher
	match := true
	fallbackUsed := false
	want := map[string]rel.Value{}
	used := map[string]bool{}
	for _, e := range pat.entries {
		v, present := have[e.key]
		switch {
		case present && e.kind == 1:
			if verifConcretize(v, 0, 2) != 1 {
				match = false
			}
			used[e.key] = true
		case present:
			want[e.bindName] = rel.NewNumber(float64(v))
			used[e.key] = true
		case e.kind == 2:
			want[e.bindName] = rel.NewNumber(7)
			fallbackUsed = true
			if match {
				verifCover("fallback-used")
			}
		default:
			match = false
		}
	}
	var restEntries []rel.DictEntryTuple
	surplus := 0
	for _, k := range []string{"a", "b", "c"} {
		if v, present := have[k]; present && !used[k] {
			if pat.rest {
				restEntries = append(restEntries, rel.NewDictEntryTuple(rel.NewString([]rune(k)), rel.NewNumber(float64(v))))
			} else {
				surplus++
				match = false
			}
		}
	}
	// recorded defect: the feasibility check counts entries, so exactly one unmatched key is
	// overlooked when an optional entry is absent (TestExprLetGetPattern pins this)
	verifKnown("KF-C09-dict-optional-ignores-surplus", "dict-pattern-rejects", fallbackUsed && surplus == 1)
	if pat.rest {
		want["r"] = rel.MustNewDict(false, restEntries...)
	}

	// the program returns a tuple of everything the pattern binds
	body := "("
	first := true
	for _, e := range pat.entries {
		if e.bindName != "" {
			if !first {
				body += ", "
			}
			body += e.bindName + ": " + e.bindName
			first = false
		}
	}
	if pat.rest {
		if !first {
			body += ", "
		}
		body += "r: r"
	}
	body += ")"
	var src string
	if verifChoice(2) == 0 {
		src = "let " + pat.text + " = d; " + body
	} else {
		src = "(\\" + pat.text + " " + body + ")(d)"
	}
	out := verifC08Eval(src, sc)
	if match {
		verifCover("match")
		if pat.rest {
			verifCover("rest")
		}
		verifAssert("dict-pattern-matches", !out.failed)
		if !out.failed {
			attrs := make([]rel.Attr, 0, len(want))
			for name, v := range want {
				attrs = append(attrs, rel.NewAttr(name, v))
			}
			verifAssert("dict-pattern-bindings", out.v.Equal(rel.NewTuple(attrs...)))
		}
	} else {
		verifCover("no-match")
		verifAssert("dict-pattern-rejects", out.failed)
	}
}

// verif:bound VerifC09NestedPattern 11 pattern/value pairs over 6 nested patterns (array in tuple, tuple in array, dict in tuple, array in array with rest, tuple in dict, fallback inside a nested tuple) against matching and non-matching values with symbolic numbers in [0,2]
// verif:cover VerifC09NestedPattern match no-match
func VerifC09NestedPattern() {
	x, y := verifNondetIntIn(0, 2), verifNondetIntIn(0, 2)
	nx, ny := rel.NewNumber(float64(x)), rel.NewNumber(float64(y))
	arr := func(vs ...rel.Value) rel.Value { return rel.NewArray(vs...) }
	tup := func(attrs ...rel.Attr) rel.Value { return rel.NewTuple(attrs...) }
	type c9 struct {
		pat   string
		body  string
		val   rel.Value
		match bool
		want  rel.Value
	}
	cases := []c9{
		{"(a: [p, q])", "[q, p]", tup(rel.NewAttr("a", arr(nx, ny))), true, arr(ny, nx)},
		{"(a: [p, q])", "[q, p]", tup(rel.NewAttr("a", arr(nx))), false, nil},
		{"[(a: p), (a: q)]", "p - q", arr(tup(rel.NewAttr("a", nx)), tup(rel.NewAttr("a", ny))), true, rel.NewNumber(float64(x - y))},
		{"[(a: p), (a: q)]", "p - q", arr(tup(rel.NewAttr("a", nx)), tup(rel.NewAttr("b", ny))), false, nil},
		{"(a: {\"k\": p})", "p", tup(rel.NewAttr("a", rel.MustNewDict(false, rel.NewDictEntryTuple(rel.NewString([]rune("k")), nx)))), true, nx},
		{"[[p, ...t], q]", "[p, q, t]", arr(arr(nx, ny, nx), ny), true, arr(nx, ny, arr(ny, nx))},
		{"[[p, ...t], q]", "[p, q, t]", arr(arr(), ny), false, nil},
		{"{\"k\": (a: p, b: q)}", "p * q", rel.MustNewDict(false, rel.NewDictEntryTuple(rel.NewString([]rune("k")), tup(rel.NewAttr("a", nx), rel.NewAttr("b", ny)))), true, rel.NewNumber(float64(x * y))},
		{"(a: (b: p, c?: q:7))", "[p, q]", tup(rel.NewAttr("a", tup(rel.NewAttr("b", nx)))), true, arr(nx, rel.NewNumber(7))},
		{"(a: (b: p, c?: q:7))", "[p, q]", tup(rel.NewAttr("a", tup(rel.NewAttr("b", nx), rel.NewAttr("c", ny)))), true, arr(nx, ny)},
		{"(a: (b: p, c?: q:7))", "[p, q]", tup(rel.NewAttr("a", tup(rel.NewAttr("c", ny)))), false, nil},
	}
	c := cases[verifChoice(len(cases))]
	sc := rel.EmptyScope.With("d", c.val)
	var src string
	if verifChoice(2) == 0 {
		src = "let " + c.pat + " = d; " + c.body
	} else {
		src = "d -> \\" + c.pat + " " + c.body
	}
	out := verifC08Eval(src, sc)
	if c.match {
		verifCover("match")
		verifAssert("nested-pattern-matches", !out.failed)
		if !out.failed {
			verifAssert("nested-pattern-bindings", out.v.Equal(c.want))
		}
	} else {
		verifCover("no-match")
		verifAssert("nested-pattern-rejects", out.failed)
	}
}
