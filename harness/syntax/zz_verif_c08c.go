package syntax

// C08 (continued): cond whose arms are all literals (folded at compile time) against the same
// cond with a let-bound or parenthesised condition (not folded) and against the selected value.

var verifC08CondCases = [][2]string{
	{"cond {1: 10}", "10"},
	{"cond {0: 1, 1: 20}", "20"},
	{"cond {{}: 10, 1: 20}", "20"},
	{"cond {(a: 1): 7}", "7"},
	{"cond {1: 10, _: 20}", "10"},
	{"cond {0: 10, _: 20}", "20"},
	{"cond {0: 10}", "{}"},
	{"cond {1: 10}", "let c = 1; cond {c: 10}"},
	{"cond {1: 10}", "cond {(1): 10}"},
	{"cond {1: 10}", "(\\c cond {c: 10})(1)"},
	{"cond {1: «x»}", "«x»"},
	{"cond {«x»: 1, _: 2}", "let c = «x»; cond {c: 1, _: 2}"},
	{"cond 1 {1: 10}", "10"},
	{"cond 1 {2: 10, 1: 20}", "20"},
	{"cond 1 {2: 10, _: 30}", "30"},
	{"cond «x» {0: 5, _: 6}", "let c = «x»; cond c {0: 5, _: 6}"},
	{"cond [1, 2] {[a, b]: a + b}", "3"},
	{"cond (a: 1) {(a: k): k + «x»}", "1 + «x»"},
	{"1 if 1 else 2", "1"},
	{"1 if 0 else 2", "2"},
	{"1 if {} else «x»", "«x»"},
}

// verif:bound VerifC08CondLiterals 21 cond / if programs with literal-only conditions or values (compile-time folding) against the selected value and against the let-bound / parenthesised / applied spelling; plain and noisy renderings; numbers in [-2,2]
// verif:cover VerifC08CondLiterals value
func VerifC08CondLiterals() {
	c := verifC08CondCases[verifChoice(len(verifC08CondCases))]
	sc, _ := verifC08Scope()
	verifC08Pair("cond-literal", sc, c[0], c[1])
}
