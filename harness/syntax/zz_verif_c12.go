package syntax

import (
	"github.com/arr-ai/arrai/pkg/fu"
	"github.com/arr-ai/arrai/rel"
)

// C12 — printed values read back as the same value (string-literal codec kernel).
// The printer (rel String.Format -> reprString/reprStr/reprEscape) and the literal reader
// (syntax.parseArraiString) are both the real code; the grammar that splits source text into
// tokens is outside the claim.

func verifScalar() rune {
	r := verifNondetRune()
	verifAssume(r >= 0)
	verifAssume(r <= 0x10FFFF)
	verifAssume(verifOr(r < 0xD800, r > 0xDFFF))
	return r
}

// verif:bound VerifC12StringLiteralRoundTrip strings of 1..2 runes, each any Unicode scalar value (all control characters, both quotes, backslash, 1-4 byte encodings)
// verif:cover VerifC12StringLiteralRoundTrip single-quoted double-quoted hex-escape named-escape multibyte
func VerifC12StringLiteralRoundTrip() {
	n := 1 + verifChoice(2)
	rs := make([]rune, n)
	for i := range rs {
		rs[i] = verifScalar()
	}
	orig := string(rs)
	printed := fu.Repr(rel.NewString(rs))
	if printed[0] == '\'' {
		verifCover("single-quoted")
	} else {
		verifCover("double-quoted")
	}
	for _, r := range rs {
		switch {
		case r < 32 && (r == 7 || r == 8 || r == 27 || r == 12 || r == 10 || r == 13 || r == 9 || r == 11):
			verifCover("named-escape")
		case r < 32:
			verifCover("hex-escape")
		case r >= 128:
			verifCover("multibyte")
		}
	}
	var back string
	p := verifTry(func() { back = parseArraiString(printed) })
	verifAssert("reader-accepts-printed-literal", !p)
	if p {
		return
	}
	verifAssert("round-trip", back == orig)
}

func verifOffsetPrefix(o int) string {
	if o == 0 {
		return ""
	}
	digits := ""
	n := o
	if n < 0 {
		n = -n
	}
	for n > 0 {
		digits = string(rune('0'+n%10)) + digits
		n /= 10
	}
	if o < 0 {
		digits = "-" + digits
	}
	return digits + `\`
}

// verif:bound VerifC12OffsetPrinted strings (1..2 printable ASCII chars), arrays (1..2 small integers) and byte arrays (1..2 non-renderable bytes) at every offset in [-3,3]: the printed form is the N\ prefix followed by the printed zero-offset value
// verif:cover VerifC12OffsetPrinted negative zero positive
func VerifC12OffsetPrinted() {
	rep := verifChoice(3)
	n := 1 + verifChoice(2)
	o := verifChoice(7) - 3
	switch {
	case o < 0:
		verifCover("negative")
	case o == 0:
		verifCover("zero")
	default:
		verifCover("positive")
	}
	var at0, atO rel.Value
	switch rep {
	case 0:
		rs := make([]rune, n)
		for i := range rs {
			rs[i] = rune('a' + verifNondetIntIn(0, 25))
		}
		at0, atO = rel.NewString(rs), rel.NewOffsetString(rs, o)
	case 1:
		vs := make([]rel.Value, n)
		for i := range vs {
			vs[i] = rel.NewNumber(float64(verifChoice(3)))
		}
		at0, atO = rel.NewArray(vs...), rel.NewOffsetArray(o, vs...)
	default:
		bs := make([]byte, n)
		for i := range bs {
			bs[i] = byte(1 + verifChoice(3))
		}
		at0, atO = rel.NewBytes(bs), rel.NewOffsetBytes(bs, o)
	}
	verifAssert("offset-prefix", fu.Repr(atO) == verifOffsetPrefix(o)+fu.Repr(at0))
}
