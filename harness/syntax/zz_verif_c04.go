package syntax

import (
	"github.com/arr-ai/arrai/rel"
)

// C04 (continued): nest and unnest, compiled from source by the real compiler and evaluated on a
// relation with symbolic cells, against the relational definition computed in the harness.

type verifC04Row struct{ a, b, c int }

func verifC04Relation(n int) ([]verifC04Row, rel.Value) {
	rows := make([]verifC04Row, n)
	vals := make([]rel.Value, n)
	for i := range rows {
		rows[i] = verifC04Row{verifNondetIntIn(0, 1), verifNondetIntIn(0, 1), verifNondetIntIn(0, 1)}
		vals[i] = rel.NewTuple(
			rel.NewAttr("a", rel.NewNumber(float64(rows[i].a))),
			rel.NewAttr("b", rel.NewNumber(float64(rows[i].b))),
			rel.NewAttr("c", rel.NewNumber(float64(rows[i].c))))
	}
	return rows, rel.MustNewSet(vals...)
}

func verifC04Num(k int) rel.Value { return rel.NewNumber(float64(k)) }

// verif:bound VerifC04NestUnnest relations over {a,b,c} with 1..3 rows, cells in {0,1}: nest |b|bs, nest |b,c|bcs, nest ~|a|rest against the grouping computed in the harness, and unnest of each nest against the original relation; also a relation built by a join (unsorted columns)
// verif:cover VerifC04NestUnnest nested merged-group round-trip
func VerifC04NestUnnest() {
	n := 1 + verifChoice(3)
	rows, r := verifC04Relation(n)
	sc := rel.EmptyScope.With("r", r)
	form := verifChoice(4)
	var src string
	// key extracts the grouping key, rest the nested attributes of a row
	type group struct {
		key    verifC04Row
		nested []rel.Value
	}
	var groups []group
	keyOf := func(x verifC04Row) verifC04Row {
		switch form {
		case 0: // nest |b|bs : group by a,c
			return verifC04Row{x.a, 0, x.c}
		case 1: // nest |b,c|bcs : group by a
			return verifC04Row{x.a, 0, 0}
		default: // nest ~|a|rest : group by a, nest b and c
			return verifC04Row{x.a, 0, 0}
		}
	}
	nestedOf := func(x verifC04Row) rel.Value {
		switch form {
		case 0:
			return rel.NewTuple(rel.NewAttr("b", verifC04Num(x.b)))
		default:
			return rel.NewTuple(rel.NewAttr("b", verifC04Num(x.b)), rel.NewAttr("c", verifC04Num(x.c)))
		}
	}
	name := "bs"
	switch form {
	case 0:
		src = "r nest |b|bs"
	case 1:
		src, name = "r nest |b, c|bcs", "bcs"
	case 2:
		src, name = "r nest ~|a|rest", "rest"
	default:
		// the same relation with its columns in join order (b, c first)
		src, name = "((r => (:.b, :.c)) <&> (r => (:.a, :.b, :.c))) nest ~|a|rest", "rest"
	}
	for _, x := range rows {
		k := keyOf(x)
		found := false
		for gi := range groups {
			if groups[gi].key == k {
				groups[gi].nested = append(groups[gi].nested, nestedOf(x))
				found = true
				verifCover("merged-group")
				break
			}
		}
		if !found {
			groups = append(groups, group{k, []rel.Value{nestedOf(x)}})
		}
	}
	var want []rel.Value
	for _, g := range groups {
		attrs := []rel.Attr{rel.NewAttr("a", verifC04Num(g.key.a)), rel.NewAttr(name, rel.MustNewSet(g.nested...))}
		if form == 0 {
			attrs = append(attrs, rel.NewAttr("c", verifC04Num(g.key.c)))
		}
		want = append(want, rel.NewTuple(attrs...))
	}
	out := verifC08Eval(src, sc)
	verifAssert("nest-evaluates", !out.failed)
	if out.failed {
		return
	}
	verifCover("nested")
	expected := rel.MustNewSet(want...)
	verifAssert("nest-groups", out.v.Equal(expected) && expected.Equal(out.v))
	verifAssert("nest-count", out.v.(rel.Set).Count() == len(groups))
	// unnest is the inverse (rel.Unnest directly: the `unnest` syntax is not compiled at all -
	// compileArrow panics "unfinished", recorded under C10)
	back, err := rel.Unnest(out.v.(rel.Set), name)
	verifAssert("unnest-evaluates", err == nil)
	if err == nil {
		verifCover("round-trip")
		verifAssert("unnest-inverts-nest", back.Equal(r) && r.Equal(back))
	}
}
