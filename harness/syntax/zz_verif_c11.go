package syntax

import (
	"context"

	"github.com/arr-ai/arrai/pkg/arraictx"
	"github.com/arr-ai/arrai/pkg/importcache"
	"github.com/arr-ai/arrai/rel"
)

// C11 (continued): one compiled expression evaluated by two goroutines at once over shared
// values (the way server observers and embedding hosts do), under the executor's scheduler with
// the happens-before race detector on. Both results must equal the result of evaluating alone.

var verifC11Programs = []string{
	"(a: x, b: y) :> . + 1",
	"{(a: x, b: 1), (a: y, b: 2)} <&> {(b: 1, c: 3), (b: 2, c: 4)}",
	"t.a + t.b",
	"r <&> {(b: 1, c: 3)}",
	"r => .a",
	"(r orderby .a) >> .b",
	"r nest |b|bs",
	"{t, (a: 9, b: 9)} where .a < 5",
	"t +> (c: 1)",
	"r rank (k: .a)",
}

// verif:bound VerifC11SharedEvaluation 10 programs over a shared tuple t and a shared relation r (built once, first used concurrently), evaluated by two goroutines from one compiled expression; all interleavings within the context bound; numbers x,y in [0,1]
// verif:cover VerifC11SharedEvaluation ran
func VerifC11SharedEvaluation() {
	verifRaceDetect()
	src := verifC11Programs[verifChoice(len(verifC11Programs))]
	x, y := verifNondetIntIn(0, 1), verifNondetIntIn(0, 1)
	nx, ny := rel.NewNumber(float64(x)), rel.NewNumber(float64(y))
	t := rel.NewTuple(rel.NewAttr("b", ny), rel.NewAttr("a", nx))
	r := rel.MustNewSet(
		rel.NewTuple(rel.NewAttr("a", nx), rel.NewAttr("b", rel.NewNumber(1))),
		rel.NewTuple(rel.NewAttr("a", ny), rel.NewAttr("b", rel.NewNumber(2))))
	sc := rel.EmptyScope.With("x", nx).With("y", ny).With("t", t).With("r", r)
	c := verifC08Compile(src)
	verifAssume(c.err == nil)
	eval := func() (rel.Value, error) {
		ctx := importcache.WithNewImportCache(context.Background())
		return c.expr.Eval(arraictx.ContextWithIsCompiling(ctx, false), sc)
	}
	var v1, v2 rel.Value
	var e1, e2 error
	done := make(chan struct{})
	verifGo(func() {
		v2, e2 = eval()
		close(done)
	})
	v1, e1 = eval()
	<-done
	verifCover("ran")
	// the reference: a third evaluation, alone
	v0, e0 := eval()
	verifAssert("result-as-if-alone", (e1 != nil) == (e0 != nil) && (e2 != nil) == (e0 != nil))
	if e0 == nil && e1 == nil && e2 == nil {
		verifAssert("result-as-if-alone", v1.Equal(v0) && v2.Equal(v0))
	}
}
