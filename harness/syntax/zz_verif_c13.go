package syntax

import (
	"context"

	"github.com/arr-ai/arrai/rel"
)

// C13 — codecs round-trip. H3: //bits.mask and //bits.set are inverse on non-negative integers.

// verif:bound VerifC13BitsMaskOfSet every integer n in [0, 2^8) (thorough: [0, 2^16)): mask(set(n)) = n
// verif:cover VerifC13BitsMaskOfSet zero several-bits
func VerifC13BitsMaskOfSet() {
	hi := 255
	if verifThorough() {
		hi = 65535
	}
	n := verifNondetIntIn(0, hi)
	ctx := context.Background()
	s, err := set(ctx, rel.NewNumber(float64(n)))
	verifAssert("set-no-error", err == nil)
	if err != nil {
		return
	}
	if !s.IsTrue() {
		verifCover("zero")
	} else if s.(rel.Set).Count() >= 2 {
		verifCover("several-bits")
	}
	m, err := mask(ctx, s)
	verifAssert("mask-no-error", err == nil)
	if err != nil {
		return
	}
	num, is := m.(rel.Number)
	verifAssert("mask-number", is)
	if is {
		verifAssert("mask-of-set-is-identity", float64(num) == float64(n))
	}
}

// verif:bound VerifC13BitsSetOfMask every subset S of {0..5}: set(mask(S)) = S
// verif:cover VerifC13BitsSetOfMask empty nonempty
func VerifC13BitsSetOfMask() {
	var vals []rel.Value
	for k := 0; k < 6; k++ {
		if verifChoice(2) == 1 {
			vals = append(vals, rel.NewNumber(float64(k)))
		}
	}
	if len(vals) == 0 {
		verifCover("empty")
	} else {
		verifCover("nonempty")
	}
	s := rel.MustNewSet(vals...)
	ctx := context.Background()
	m, err := mask(ctx, s)
	verifAssert("mask-no-error", err == nil)
	if err != nil {
		return
	}
	back, err := set(ctx, m)
	verifAssert("set-no-error", err == nil)
	if err != nil {
		return
	}
	verifAssert("set-of-mask-is-identity", s.Equal(back))
}

// verif:bound VerifC13BitsHighBits every n = 2^i + 2^j with 0 <= j <= i <= 52 (all exact integers with one or two bits, up to the 53rd significant bit): set(n) = {i, j} and mask(set(n)) = n
// verif:cover VerifC13BitsHighBits one-bit two-bits top-bit
func VerifC13BitsHighBits() {
	i := verifChoice(53)
	j := verifChoice(i + 1)
	n := float64(uint64(1)<<uint(i) | uint64(1)<<uint(j))
	ctx := context.Background()
	s, err := set(ctx, rel.NewNumber(n))
	verifAssert("set-no-error", err == nil)
	if err != nil {
		return
	}
	want := rel.MustNewSet(rel.NewNumber(float64(i)), rel.NewNumber(float64(j)))
	verifAssert("set-is-the-bit-positions", s.Equal(want) && want.Equal(s))
	if i == j {
		verifCover("one-bit")
	} else {
		verifCover("two-bits")
	}
	if i == 52 {
		verifCover("top-bit")
	}
	m, err := mask(ctx, s)
	verifAssert("mask-no-error", err == nil)
	if err == nil {
		num, is := m.(rel.Number)
		verifAssert("mask-of-set-is-identity", is && float64(num) == n)
	}
}
