package syntax

import (
	"math"

	"github.com/arr-ai/arrai/pkg/fu"
	"github.com/arr-ai/arrai/rel"
)

// C12 (continued): composite values printed by the real Repr code are read back by the real
// parser and compiler. The shapes are enumerated; small integers inside them are symbolic until
// the printing code formats them (the executor then forks on their value, because the lexer
// needs concrete text).

var verifC12Strings = []string{"", "a", "a\"b", "it's", "\\", "\n\t", "\u00e9\u2603", "\x00\x7f", "`", "${x}", "a b",
	"a\u200bb", "\u2028", "\ufeff", "\ue000z", "\u00a0\u00ad", "\U0001f600", "\U000e0001"}

var verifC12AttrNames = []string{"a", "@", "a b", "", "1x", "let", "a.b", "@item", "'q'", "é", "x\"y", "true"}

var verifC12Numbers = []float64{0.5, -1.25, 1e21, 1e-7, 123456789.125, -0.0, 1e100, 0.1, 255, 1 << 53}

func verifC12Composite(kind int, x, y int) rel.Value {
	nx, ny := rel.NewNumber(float64(x)), rel.NewNumber(float64(y))
	str := func(k int) rel.Value { return rel.NewString([]rune(verifC12Strings[k])) }
	switch kind {
	case 0:
		return nx
	case 1:
		return rel.NewNumber(verifC12Numbers[verifChoice(len(verifC12Numbers))])
	case 2:
		return str(verifChoice(len(verifC12Strings)))
	case 3:
		return rel.NewOffsetString([]rune(verifC12Strings[1+verifChoice(len(verifC12Strings)-1)]), x)
	case 4:
		return rel.NewArray(nx, str(2), rel.NewTuple(rel.NewAttr("a", ny)))
	case 5:
		return rel.NewOffsetArray(x, ny, rel.NewArray(nx))
	case 6:
		return rel.NewArray(nx, nil, ny) // a hole in the middle
	case 7:
		return rel.NewOffsetBytes([]byte{1, 'a', 255}, x)
	case 8:
		name := verifC12AttrNames[verifChoice(len(verifC12AttrNames))]
		return rel.NewTuple(rel.NewAttr(name, nx), rel.NewAttr("z", str(3)))
	case 9:
		return rel.MustNewDict(false, rel.NewDictEntryTuple(nx, str(1)), rel.NewDictEntryTuple(str(2), rel.NewArray(ny)))
	case 10:
		return rel.MustNewSet(nx, ny, str(1), rel.NewTuple(rel.NewAttr("a", nx)))
	case 11:
		return rel.MustNewSet(
			rel.NewTuple(rel.NewAttr("a", nx), rel.NewAttr("b", rel.NewNumber(1))),
			rel.NewTuple(rel.NewAttr("a", ny), rel.NewAttr("b", rel.NewNumber(3))))
	case 12:
		return rel.NewTuple(rel.NewAttr("a", rel.MustNewSet(rel.NewTuple(rel.NewAttr("b", rel.NewArray(nx, str(5)))))))
	case 13:
		return rel.MustNewDict(false, rel.NewDictEntryTuple(rel.NewArray(nx), rel.MustNewDict(false, rel.NewDictEntryTuple(ny, str(6)))))
	case 14:
		return []rel.Value{rel.True, rel.None, rel.EmptyTuple, rel.NewArray(), rel.NewString(nil), rel.MustNewSet(rel.EmptyTuple, nx)}[verifChoice(6)]
	case 15:
		return rel.MustNewSet(rel.NewStringCharTuple(x, 'a'))
	case 16:
		return rel.MustNewSet(rel.NewStringCharTuple(0, 'a'), rel.NewStringCharTuple(2, 'b')) // a sparse string
	case 17:
		return rel.MustNewSet(rel.NewArrayItemTuple(x, ny), rel.NewStringCharTuple(y, 'c'), nx) // a union of kinds
	case 18:
		return rel.MustNewSet(rel.NewBytesByteTuple(x, 7), rel.NewBytesByteTuple(x+1, 8))
	default:
		return rel.NewNumber([]float64{math.Inf(1), math.Inf(-1)}[verifChoice(2)])
	}
}

const verifC12Kinds = 20

// verif:bound VerifC12ReadBack 20 composite shapes (numbers incl. large/small/fractional/negative zero/infinite, strings with quotes, escapes, control and non-ASCII characters, offset strings/arrays/byte arrays, arrays with holes, tuples with 12 unusual attribute names, dicts, mixed sets, relations, nesting, empty forms, single char tuples, sparse strings, unions of kinds) with integers x,y in [-2,2]; printed with fu.Repr, read with syntax.Compile + Eval
// verif:cover VerifC12ReadBack read-back
func VerifC12ReadBack() {
	kind := verifChoice(verifC12Kinds)
	x, y := verifNondetIntIn(-2, 2), verifNondetIntIn(-2, 2)
	v := verifC12Composite(kind, x, y)
	// the known class: infinities print as +Inf / -Inf, which is not a literal
	if kind == 19 {
		verifKnown("KF-C12-infinity", "*", true)
	}
	s := fu.Repr(v)
	out := verifC08Eval(s, rel.EmptyScope)
	verifAssert("printed-value-is-readable", !out.failed)
	if !out.failed {
		verifCover("read-back")
		verifAssert("reads-back-equal", out.v.Equal(v) && v.Equal(out.v))
		verifAssert("prints-the-same-again", fu.Repr(out.v) == s)
	}
}
