package syntax

import (
	"github.com/arr-ai/arrai/rel"
)

// C08 (continued): arrow chains that mix implicit and explicit binders, and the values of && / ||
// for every combination of literal and non-literal operands.

// verif:bound VerifC08ArrowChains chains of 2..3 `->` steps (+1, *2, -3), every step written with the implicit `.` binder, an explicit \v binder or an explicit array pattern, un-parenthesised; against the number computed from x in [-2,2]; plain and noisy renderings
// verif:cover VerifC08ArrowChains value
func VerifC08ArrowChains() {
	sc, n := verifC08Scope()
	x := n[0]
	steps := 2 + verifChoice(2)
	ops := []string{"+ 1", "* 2", "- 3"}
	src := "«x»"
	want := x
	for k := 0; k < steps; k++ {
		switch verifChoice(3) {
		case 0:
			src += " -> . " + ops[k]
		case 1:
			src += " -> \\v «v» " + ops[k]
		default:
			src = "[" + src + "] -> \\[w] «w» " + ops[k]
		}
		switch k {
		case 0:
			want = want + 1
		case 1:
			want = want * 2
		default:
			want = want - 3
		}
	}
	style := verifChoice(2)
	text := verifC08Plain(src)
	if style == 1 {
		text = verifC08Noisy(src)
	}
	out := verifC08Eval(text, sc)
	verifAssert("arrow-chain-evaluates", !out.failed)
	if !out.failed {
		verifCover("value")
		num, is := out.v.(rel.Number)
		verifAssert("arrow-chain-value", is && int(num) == want)
	}
}

// operand atoms of the logical harness: text, whether evaluating it fails, and its value
type verifC08Atom struct {
	text  string
	fails bool
	val   func(x int) rel.Value
	truth func(x int) bool
}

func verifC08Atoms() []verifC08Atom {
	num := func(k int) func(int) rel.Value { return func(int) rel.Value { return rel.NewNumber(float64(k)) } }
	konst := func(v rel.Value) func(int) rel.Value { return func(int) rel.Value { return v } }
	yes := func(int) bool { return true }
	no := func(int) bool { return false }
	return []verifC08Atom{
		{"«x»", false, func(x int) rel.Value { return rel.NewNumber(float64(x)) }, func(x int) bool { return x != 0 }},
		{"0", false, num(0), no},
		{"1", false, num(1), yes},
		{"false", false, konst(rel.None), no},
		{"true", false, konst(rel.True), yes},
		{"()", false, konst(rel.EmptyTuple), no},
		{"{}", false, konst(rel.None), no},
		{"(a: «x»)", false, func(x int) rel.Value { return rel.NewTuple(rel.NewAttr("a", rel.NewNumber(float64(x)))) }, yes},
		{verifC08Err, true, nil, nil},
	}
}

// verif:bound VerifC08LogicalValues `A && B` and `A || B` for every pair of 9 operand atoms (the scope number x, literals 0 1 false true () {}, a tuple, a failing expression): the result is the operand the language definition selects (first falsy / first truthy, else the last), the program fails iff an operand that had to be evaluated fails; also with A bound by let
// verif:cover VerifC08LogicalValues value fails
func VerifC08LogicalValues() {
	sc, n := verifC08Scope()
	x := n[0]
	atoms := verifC08Atoms()
	a := atoms[verifChoice(len(atoms))]
	b := atoms[verifChoice(len(atoms))]
	and := verifChoice(2) == 0
	op := " || "
	if and {
		op = " && "
	}
	src := a.text + op + b.text
	if verifChoice(2) == 1 {
		src = "let v = " + a.text + "; «v»" + op + b.text
	}
	out := verifC08Eval(verifC08Plain(src), sc)
	if a.fails {
		verifCover("fails")
		verifAssert("fails-when-first-operand-fails", out.failed)
		return
	}
	// is the second operand needed?
	needB := a.truth(x) == and
	if verifConcretize(verifIte(needB, 1, 0), 0, 1) == 0 {
		verifAssert("first-operand-decides", !out.failed)
		if !out.failed {
			verifCover("value")
			verifAssert("value-of-first-operand", out.v.Equal(a.val(x)))
		}
		return
	}
	if b.fails {
		verifCover("fails")
		verifAssert("fails-when-needed-operand-fails", out.failed)
		return
	}
	verifAssert("second-operand-decides", !out.failed)
	if !out.failed {
		verifCover("value")
		verifAssert("value-of-second-operand", out.v.Equal(b.val(x)))
	}
}
