package syntax

import (
	"math"
	"strconv"
	"strings"

	"github.com/arr-ai/arrai/pkg/fu"

	"github.com/arr-ai/arrai/rel"
)

// C07 — evaluation is deterministic across hash seeds / enumeration orders.
//
// A concrete program text is compiled once with the real parser and compiler and evaluated
// twice in a scope of symbolic values: first with every set, dictionary and Go map enumerated
// in insertion order, then in order-free mode, in which up to a bounded number of enumerations
// (frozen sets/maps and Go maps alike) take an arbitrary other order. Both evaluations must
// fail alike or give Equal values - and, for concrete numbers, print identically.
//
// Natively an order leak cannot show inside one process (the hash seeds are fixed at start-up),
// so a counterexample is confirmed by evaluating it in ten fresh processes and comparing what
// the harness hands to verifOutput.

// Sets of up to 8 members are enumerated by frozen in insertion order whatever the seed; only
// larger ones (and Go maps of any size) follow the hash. The templates therefore pad their
// collections to 9..11 members: $S numbers, $R / $K relations, $D a dictionary.
var verifC07Expand = strings.NewReplacer(
	"$S", "{x, y, z, 11, 12, 13, 14, 15, 16, 17, 18}",
	"$R", "{(a: x, b: 0), (a: y, b: 1), (a: z, b: 2), (a: 11, b: 3), (a: 12, b: 4), (a: 13, b: 5), (a: 14, b: 6), (a: 15, b: 7), (a: 16, b: 8)}",
	"$K", "{(@: x, v: 1), (@: y, v: 2), (@: z, v: 3), (@: 11, v: 4), (@: 12, v: 5), (@: 13, v: 6), (@: 14, v: 7), (@: 15, v: 8), (@: 16, v: 9)}",
	"$D", "{x + 20: 1, y + 30: 2, z + 40: 3, 11: 4, 12: 5, 13: 6, 14: 7, 15: 8, 16: 9}",
	"$T", "{\"pear\", 1\\\"fig\", \"apple\", 2\\\"kiwi\", \"plum\", 3\\\"lime\", \"date\", 4\\\"pear\", \"cherry\"}",
	"$U", "(a: x, b: 2, c: 3, d: 4, e: 5, f: 6, g: 7, h: 8, i: 9, j: 10)",
	"$F","{(k: 0, a: f), (k: 1, a: g), (k: 2, a: h), (k: 3, a: 0), (k: 4, a: 0), (k: 5, a: 0), (k: 6, a: 0), (k: 7, a: 0), (k: 8, a: 0)}",
)

var verifC07Programs = []string{
	"$S sum .",
	"$S max .",
	"$S min .",
	"$S median .",
	"$S mean .",
	"$S orderby .",
	"$S orderby -.",
	"$R rank (r: .a)",
	"$R orderby [.a, .b]",
	"$K(x)",
	"$D(y + 30)",
	"$S => . * 2",
	"$S where . > 0",
	"$R nest |b|bs",
	"$R <&> {|b, c| (0, 1), (1, 2)}",
	"$R <-> {|b, c| (0, 1), (1, 2)}",
	"$R -&- {|b, c| (0, 1), (1, 2)}",
	"(a: x, b: y, c: z) :> . + 1",
	"(a: x, b: y) +> (b: z, c: 1)",
	"$D => .@value",
	"$D >> . + 1",
	"($S orderby .)(0)",
	"$S => [., 1] => .(0)",
	"$R => (:.a, n: $S count)",
	"$S | {y, z} & $S",
	"$R => \\(a: k, ...) k",
	"$S => (k: ., v: . * .) -> . <&> {(k: x)}",
	"$D +> {x + 20: y, 50: z}",
	"$K => .@",
	"$U :> . * 2",
	"$U +> (k: y, a: z)",
	"{$U, ($U :> . + 1)} orderby .",
	"$T orderby .",
	"$T => (. ++ \"s\")",
	"$T | {x}",
	"$S -> \\s s where \\a (s where \\b b > a) count > 9",
}

func verifC07IntScope() rel.Scope {
	x := verifNondetIntIn(-2, 2)
	return rel.EmptyScope.With("x", rel.NewNumber(float64(x))).With("y", rel.NewNumber(1)).With("z", rel.NewNumber(2))
}

// verif:bound VerifC07Programs 36 programs (reductions, orderby/rank over numbers and over strings of mixed offsets, calls, set operators, nest, joins, tuple maps, dict ops, nested traversals) over collections of 9..11 members, x in [-2,2] (symbolic), y = 1, z = 2; second evaluation with at most 1 enumeration out of insertion order (any permutation of up to 3 members, any transposition of more); VerifC07Floats and VerifC07Superimposed allow 2 in the thorough tier
// verif:cover VerifC07Programs value deviated
func VerifC07Programs() {
	idx := verifChoice(len(verifC07Programs))
	tag := "-" + strconv.Itoa(idx)
	src := verifC07Expand.Replace(verifC07Programs[idx])
	sc := verifC07IntScope()
	r0 := verifC08Eval(src, sc)
	verifOrderFreeN(1) // both tiers: two deviations over 36 programs do not finish within an hour
	r1 := verifC08Eval(src, sc)
	if verifOrderDeviations() > 0 {
		verifCover("deviated")
	}
	verifOrderInsertion()
	verifC07Output(r1)
	verifAssert("seed-independent-failure"+tag, r0.failed == r1.failed)
	if !r0.failed && !r1.failed {
		verifCover("value")
		verifAssert("seed-independent-value"+tag, r0.v.Equal(r1.v) && r1.v.Equal(r0.v))
	}
}

// verif:bound VerifC07Superimposed 4 programs that offer the set builder several char / item / byte tuples at one index (11 candidates for 3 indices); x in [-2,2]; order-free second evaluation
// verif:cover VerifC07Superimposed value
func VerifC07Superimposed() {
	progs := []string{
		"$S => (@: . % 3, @char: 97 + .)",
		"$S => (@: . % 3, @item: .)",
		"($S => (@: . % 3, @item: .))(1)",
		"$S => (@: . % 3, @byte: 97 + .)",
	}
	src := verifC07Expand.Replace(progs[verifChoice(len(progs))])
	sc := verifC07IntScope()
	// a sequence keeps one value per index: which of several superimposed tuples survives
	// depends on the enumeration order (recorded defect)
	verifKnown("KF-C07-superimposed-items", "*", true)
	r0 := verifC08Eval(src, sc)
	verifOrderFree()
	r1 := verifC08Eval(src, sc)
	verifOrderInsertion()
	verifC07Output(r1)
	verifAssert("seed-independent-failure", r0.failed == r1.failed)
	if !r0.failed && !r1.failed {
		verifCover("value")
		verifAssert("seed-independent-value", r0.v.Equal(r1.v) && r1.v.Equal(r0.v))
	}
}

func verifC07Output(r verifC08Out) {
	if verifSymbolic() {
		return
	}
	switch {
	case r.panicked:
		verifOutput("panic")
	case r.failed:
		verifOutput("error")
	default:
		verifOutput(fu.Repr(r.v))
	}
}

// verif:bound VerifC07Floats sum and mean over a 9-row relation with three non-zero addends: one arbitrary finite float64, 1e16 and -1e16 (floating-point addition is not associative); order-free second evaluation
// verif:cover VerifC07Floats value
func VerifC07Floats() {
	progs := []string{"$F sum .a", "$F mean .a"}
	src := verifC07Expand.Replace(progs[verifChoice(len(progs))])
	f := verifNondetFloat64()
	verifAssume(!verifIsNaN(f) && f < math.MaxFloat64 && f > -math.MaxFloat64)
	sc := rel.EmptyScope.With("f", rel.NewNumber(f)).With("g", rel.NewNumber(1e16)).With("h", rel.NewNumber(-1e16))
	r0 := verifC08Eval(src, sc)
	verifOrderFree()
	r1 := verifC08Eval(src, sc)
	verifOrderInsertion()
	verifC07Output(r1)
	verifAssert("seed-independent-failure", r0.failed == r1.failed)
	if !r0.failed && !r1.failed {
		verifCover("value")
		// bit-for-bit: the printed output is what must not change
		n0, is0 := r0.v.(rel.Number)
		n1, is1 := r1.v.(rel.Number)
		verifAssert("seed-independent-value", is0 && is1 && math.Float64bits(float64(n0)) == math.Float64bits(float64(n1)))
	}
}

// verif:bound VerifC07Printed the 36 programs with x in {0,1}, y = 1, z = 2 (concrete: numbers are printed): printed form (rel.Repr and String) of the result identical under reordered enumeration (the printing code itself runs in order-free mode)
// verif:cover VerifC07Printed printed
func VerifC07Printed() {
	idx := verifChoice(len(verifC07Programs))
	tag := "-" + strconv.Itoa(idx) // one label per program, so that every program keeps its own counterexamples
	src := verifC07Expand.Replace(verifC07Programs[idx])
	sc := rel.EmptyScope.With("x", rel.NewNumber(float64(verifChoice(2)))).With("y", rel.NewNumber(1)).With("z", rel.NewNumber(2))
	r0 := verifC08Eval(src, sc)
	var p0, s0 string
	if !r0.failed {
		p0, s0 = fu.Repr(r0.v), r0.v.String()
	}
	verifOrderFreeN(1)
	r1 := verifC08Eval(src, sc)
	verifC07Output(r1)
	verifAssert("seed-independent-failure", r0.failed == r1.failed)
	if !r0.failed && !r1.failed {
		verifCover("printed")
		verifAssert("seed-independent-repr"+tag, p0 == fu.Repr(r1.v))
		verifAssert("seed-independent-string"+tag, s0 == r1.v.String())
		// and the first result printed again with its enumerations reordered
		verifAssert("seed-independent-reprint"+tag, p0 == fu.Repr(r0.v))
	}
}
