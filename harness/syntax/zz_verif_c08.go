package syntax

import (
	"context"
	"strings"

	"github.com/arr-ai/arrai/pkg/arraictx"
	"github.com/arr-ai/arrai/pkg/importcache"
	"github.com/arr-ai/arrai/rel"
)

// C08 — documented source-level equivalences preserve meaning.
//
// Every harness renders concrete program texts, parses and compiles them with the real wbnf
// grammar and syntax.Compile inside the executor and evaluates the two sides of an equivalence
// in a scope whose numbers are symbolic. The program texts are enumerated (they must be
// concrete for the regexp-driven lexer); the scalars they compute over are decided by the
// solver.
//
// Program templates mark expression atoms with «…»: the plain rendering strips the marks, the
// noisy rendering wraps every marked atom in redundant parentheses, follows it with a comment
// and widens all white space.

func verifC08Plain(t string) string {
	return strings.NewReplacer("«", "", "»", "").Replace(t)
}

func verifC08Noisy(t string) string {
	s := strings.ReplaceAll(t, " ", " \n\t ")
	return " # lead\n" + strings.NewReplacer("«", "( ", "»", " # c\n )").Replace(s) + " # tail"
}

type verifC08Out struct {
	v        rel.Value
	failed   bool
	panicked bool
}

// verifC08Scope: three symbolic numbers and derived sets, tuples and arrays.
func verifC08Scope() (rel.Scope, [3]int) {
	var n [3]int
	sc := rel.EmptyScope
	for i, name := range []string{"x", "y", "z"} {
		n[i] = verifNondetIntIn(-2, 2)
		num := rel.NewNumber(float64(n[i]))
		sc = sc.With(name, num)
		sc = sc.With("s"+name, rel.MustNewSet(num, rel.NewNumber(float64(i))))
		sc = sc.With("t"+name, rel.NewTuple(rel.NewAttr("a", num), rel.NewAttr(name, rel.NewNumber(float64(i)))))
		sc = sc.With("q"+name, rel.NewArray(num, rel.NewNumber(float64(i))))
	}
	return sc, n
}

type verifC08Compiled struct {
	expr rel.Expr
	err  error
}

// verifC08Compile parses and compiles a concrete program text with the real grammar and
// compiler (once per worker: the result depends on the text alone).
func verifC08Compile(src string) *verifC08Compiled {
	return verifMemo(src, func() interface{} {
		ctx := importcache.WithNewImportCache(context.Background())
		c := &verifC08Compiled{}
		c.expr, c.err = Compile(ctx, "", src)
		return c
	}).(*verifC08Compiled)
}

// verifC08Eval is EvalWithScope with the compilation memoised.
func verifC08Eval(src string, sc rel.Scope) (out verifC08Out) {
	out.panicked = verifTry(func() {
		c := verifC08Compile(src)
		if c.err != nil {
			out.failed = true
			return
		}
		ctx := importcache.WithNewImportCache(context.Background())
		v, err := c.expr.Eval(arraictx.ContextWithIsCompiling(ctx, false), sc)
		out.v, out.failed = v, err != nil
	})
	if out.panicked {
		out.failed = true
	}
	return out
}

// verifC08Same asserts that two programs have the same outcome: both fail, or equal values.
func verifC08Same(label string, a, b verifC08Out) {
	verifAssert(label+"-fails-alike", a.failed == b.failed)
	if !a.failed && !b.failed {
		verifCover("value")
		verifAssert(label+"-same-value", a.v.Equal(b.v) && b.v.Equal(a.v))
	} else if a.failed && b.failed {
		verifCover("both-fail")
	}
}

// verifC08Pair evaluates lhs and rhs plainly, and lhs noisily, and demands one outcome.
func verifC08Pair(label string, sc rel.Scope, lhs, rhs string) {
	a := verifC08Eval(verifC08Plain(lhs), sc)
	b := verifC08Eval(verifC08Plain(rhs), sc)
	verifC08Same(label, a, b)
	c := verifC08Eval(verifC08Noisy(lhs), sc)
	verifC08Same(label+"-noise-inert", a, c)
	d := verifC08Eval(verifC08Noisy(rhs), sc)
	verifC08Same(label+"-noise-inert", b, d)
}

// ---------------------------------------------------------------------------------------------

var verifC08LetCases = []struct{ pat, e1, body string }{
	{"v", "«x»", "«v» + «y»"},
	{"v", "[«x», «y»]", "«v»(0) - «v»(1)"},
	{"[a, b]", "[«x», «y»]", "«a» - «b»"},
	{"[a, ...t]", "[«x», «y», 1]", "t count + «a»"},
	{"[...t, a]", "[«x», «y», 1]", "«t» ++ [«a»]"},
	{"(a: a, b: b)", "(a: «x», b: «y»)", "«a» * «b»"},
	{"(:a, ...t)", "(a: «x», b: «y»)", "«t».b + «a»"},
	{"[a, 1]", "[«x», «y»]", "«a»"},
	{"1", "«x»", "«y»"},
	{"{\"k\": v}", "{\"k\": «x»}", "«v» + 1"},
	{"{a, 1}", "{«x», 1}", "«a»"},
	{"x", "«y»", "«x» + «x»"},
	{"v", "\\z «z» + «x»", "«v»(«y»)"},
	{"f", "«x»", "(\\x «f» + «x»)(«y»)"},
	{"[a, [b, c]]", "[«x», [«y», 2]]", "[«c», «b», «a»]"},
	{"(a: [a, b])", "(a: [«x», «y»])", "(:a, :b)"},
	{"[a, b?:7]", "[«x»]", "«a» + «b»"},
	{"(a: a, b?: b:z)", "(a: «x»)", "«a» + «b»"},
	{"y", "«x»", "let x = «y» + 1; «x» * «y»"},
	{"v", "«sx»", "«v» => . + «y»"},
}

// verif:bound VerifC08LetArrowApply 20 (pattern, bound expression, body) triples - identifiers, array/tuple/dict/set patterns with rest, literals, fallbacks, nesting, shadowing, function values - each as let / arrow / application, plain and noisy renderings; numbers x,y,z in [-2,2]
// verif:cover VerifC08LetArrowApply value both-fail
func VerifC08LetArrowApply() {
	c := verifC08LetCases[verifChoice(len(verifC08LetCases))]
	sc, _ := verifC08Scope()
	let := "let " + c.pat + " = " + c.e1 + "; " + c.body
	arrow := "(" + c.e1 + ") -> \\" + c.pat + " " + c.body
	apply := "(\\" + c.pat + " " + c.body + ")(" + c.e1 + ")"
	l := verifC08Eval(verifC08Plain(let), sc)
	a := verifC08Eval(verifC08Plain(arrow), sc)
	p := verifC08Eval(verifC08Plain(apply), sc)
	verifC08Same("let-vs-arrow", l, a)
	verifC08Same("let-vs-apply", l, p)
	switch verifChoice(3) {
	case 0:
		verifC08Same("let-noise-inert", l, verifC08Eval(verifC08Noisy(let), sc))
	case 1:
		verifC08Same("arrow-noise-inert", a, verifC08Eval(verifC08Noisy(arrow), sc))
	default:
		verifC08Same("apply-noise-inert", p, verifC08Eval(verifC08Noisy(apply), sc))
	}
}

// ---------------------------------------------------------------------------------------------

var verifC08SugarCases = [][2]string{
	{"\"ab\"", "{(@: 0, @char: 97), (@: 1, @char: 98)}"},
	{"2\\\"ab\"", "{(@: 2, @char: 97), (@: 3, @char: 98)}"},
	{"[«x», «y»]", "{(@: 0, @item: «x»), (@: 1, @item: «y»)}"},
	{"[1, 2]", "{(@: 0, @item: 1), (@: 1, @item: 2)}"},
	{"1\\[«x», «y»]", "{(@: 1, @item: «x»), (@: 2, @item: «y»)}"},
	{"[«x», , «y»]", "{(@: 0, @item: «x»), (@: 2, @item: «y»)}"},
	{"{«x»: «y»}", "{(@: «x», @value: «y»)}"},
	{"{«x»: «y», «z»: 1}", "{(@: «x», @value: «y»), (@: «z», @value: 1)}"},
	{"{1: 2}", "{(@: 1, @value: 2)}"},
	{"<<97, 98>>", "{(@: 0, @byte: 97), (@: 1, @byte: 98)}"},
	{"<<\"ab\">>", "{(@: 0, @byte: 97), (@: 1, @byte: 98)}"},
	{"{|a, b| («x», «y»), (1, 2)}", "{(a: «x», b: «y»), (a: 1, b: 2)}"},
	{"{|a| (1), (2)}", "{(a: 1), (a: 2)}"},
	{"true", "{()}"},
	{"false", "{}"},
	{"(:x, :y)", "(x: «x», y: «y»)"},
	{"%a", "97"},
	{"\"\"", "{}"},
	{"[]", "{}"},
	{"(a: «x»).a", "«x»"},
	{"[«x», «y»](1)", "«y»"},
	{"{«x», «y», «x»}", "{«y», «x»}"},
	{"[«x»] ++ [«y»]", "[«x», «y»]"},
	{"\"a\" ++ \"b\"", "\"ab\""},
}

// verif:bound VerifC08Sugar 24 sugared literals (strings, offset strings, arrays with offsets and holes, dicts, byte arrays, relations, booleans, name shorthand, chars, empties) against the spelled-out set of tuples; literal-only (folded at compile time) and scope-dependent (evaluated) variants; numbers in [-2,2]
// verif:cover VerifC08Sugar value
func VerifC08Sugar() {
	c := verifC08SugarCases[verifChoice(len(verifC08SugarCases))]
	sc, n := verifC08Scope()
	if strings.Contains(c[0], "«z»: 1") {
		// a dictionary literal with a repeated key is rejected by design ("duplicate key")
		verifAssume(n[0] != n[2])
	}
	verifC08Pair("sugar", sc, c[0], c[1])
}

// ---------------------------------------------------------------------------------------------

var verifC08BinderCases = [][2]string{
	{"«qx» >> . + «y»", "«qx» >> \\v «v» + «y»"},
	{"«sx» => . * 2", "«sx» => \\v «v» * 2"},
	{"«tx» :> . + 1", "«tx» :> \\v «v» + 1"},
	{"«x» -> . + 1", "«x» -> \\v «v» + 1"},
	{"«sx» where . > «y»", "«sx» where \\v «v» > «y»"},
	{"«sx» orderby -.", "«sx» orderby \\v -«v»"},
	{"«sx» sum . * «y»", "«sx» sum \\v «v» * «y»"},
	{"«sx» max .", "«sx» max \\v «v»"},
	{"«sx» => (. -> . + 1)", "«sx» => \\v («v» -> \\w «w» + 1)"},
	{"«tx» -> .a + .x", "«tx» -> \\t «t».a + «t».x"},
	{"[«tx», «ty»] >> .a", "[«tx», «ty»] >> \\t «t».a"},
	{"«sx» => (a: ., b: «sy» where . < 1)", "«sx» => \\v (a: «v», b: «sy» where \\w «w» < 1)"},
	{"«qx» >>> \\i \\v «i» + «v»", "«qx» >>> \\j \\w «j» + «w»"},
}

// verif:bound VerifC08DefaultBinder 13 uses of the implicit `.` binder with ->, =>, >>, :>, where, orderby, sum, max (nested uses included) against the explicit \v form; numbers in [-2,2]
// verif:cover VerifC08DefaultBinder value
func VerifC08DefaultBinder() {
	c := verifC08BinderCases[verifChoice(len(verifC08BinderCases))]
	sc, _ := verifC08Scope()
	verifC08Pair("binder", sc, c[0], c[1])
}

// ---------------------------------------------------------------------------------------------

var verifC08SubstCases = [][2]string{
	{"let v = «x» + 1; «v» * «v»", "(«x» + 1) * («x» + 1)"},
	{"let v = «x» + 1; (\\v «v» + 1)(«v»)", "(\\v «v» + 1)(«x» + 1)"},
	{"let v = «y»; let y = 5; «v» + «y»", "let y2 = 5; «y» + «y2»"},
	{"let v = «x»; [«v», «v»] >> . + «v»", "[«x», «x»] >> . + «x»"},
	{"let v = «x»; (\\z «v» + «z»)(2)", "(\\z «x» + «z»)(2)"},
	{"let v = «sx»; «v» => (. + (let v = 1; «v»))", "«sx» => (. + (let v = 1; «v»))"},
	{"let v = (a: «x»); «v».a + «v».a", "(a: «x»).a + (a: «x»).a"},
	{"let v = «x»; let w = «v» + «y»; «w» - «v»", "(«x» + «y») - «x»"},
	{"let f = \\a «a» + «x»; let x = 9; «f»(«x»)", "(\\a «a» + «x»)(9)"},
	{"let v = «x»; cond {«v» > 0: «v», _: -«v»}", "cond {«x» > 0: «x», _: -«x»}"},
	{"let v = «x»; {«v»: «v»}(«v»)", "{«x»: «x»}(«x»)"},
	{"let [a, b] = [«x», «y»]; «a» - «b»", "«x» - «y»"},
}

// verif:bound VerifC08Substitution 12 let-bound names replaced by their value (capture-avoiding: shadowing binders, captured free names, closures over an outer name later rebound); numbers in [-2,2]
// verif:cover VerifC08Substitution value
func VerifC08Substitution() {
	c := verifC08SubstCases[verifChoice(len(verifC08SubstCases))]
	sc, _ := verifC08Scope()
	verifC08Pair("substitution", sc, c[0], c[1])
}

// ---------------------------------------------------------------------------------------------

// operand kinds
const (
	okN = iota // number
	okS        // set of numbers
	okT        // tuple
	okQ        // array
)

type verifC08Op struct {
	text     string
	level    int // higher binds tighter
	lhs, rhs int
}

var verifC08Ops = []verifC08Op{
	{"with", 3, okS, okN}, {"without", 3, okS, okN},
	{"||", 4, okN, okN}, {"&&", 5, okN, okN},
	{"+>", 6, okT, okT},
	{"=", 7, okN, okN}, {"<", 7, okN, okN}, {"!=", 7, okN, okN}, {"<:", 7, okN, okS},
	{"+", 9, okN, okN}, {"-", 9, okN, okN}, {"|", 9, okS, okS}, {"++", 9, okQ, okQ},
	{"&", 10, okS, okS}, {"&~", 10, okS, okS}, {"~~", 10, okS, okS},
	{"*", 11, okN, okN}, {"/", 11, okN, okN}, {"%", 11, okN, okN}, {"\\", 11, okN, okQ},
	{"^", 12, okN, okN},
}

var verifC08Names = [][]string{{"x", "y", "z"}, {"sx", "sy", "sz"}, {"tx", "ty", "tz"}, {"qx", "qy", "qz"}}

// verif:bound VerifC08Precedence every ordered pair of 10 binary operators (with || && +> = + | & * ^, one or two per precedence level) in `A op1 B op2 C` against the parenthesisation the grammar documents (tighter level first; same level left to right, ^ right to left; comparison chains excluded), operands typed for the documented reading; plain and noisy renderings; numbers in [-2,2]
// verif:cover VerifC08Precedence value both-fail distinguishes
func VerifC08Precedence() {
	var ops []verifC08Op
	for _, o := range verifC08Ops {
		switch o.text {
		case "with", "||", "&&", "+>", "=", "+", "|", "&", "*", "^":
			ops = append(ops, o)
		}
	}
	verifC08PrecedencePair(ops[verifChoice(len(ops))], ops[verifChoice(len(ops))])
}

// verif:bound VerifC08PrecedenceThorough every ordered pair of 21 binary operators from 9 precedence levels in `A op1 B op2 C` against the parenthesisation the grammar documents; operands typed for the documented reading; plain and noisy renderings; numbers in [-2,2]
// verif:cover VerifC08PrecedenceThorough value both-fail distinguishes
func VerifC08PrecedenceThorough() {
	verifC08PrecedencePair(verifC08Ops[verifChoice(len(verifC08Ops))], verifC08Ops[verifChoice(len(verifC08Ops))])
}

func verifC08PrecedencePair(o1, o2 verifC08Op) {
	if o1.level == 7 && o2.level == 7 {
		return // a < b < c is a chain, not a nesting
	}
	sc, _ := verifC08Scope()
	// documented reading: rightFirst means A op1 (B op2 C)
	rightFirst := o2.level > o1.level || (o1.level == o2.level && o1.level == 12)
	var ka, kb, kc int
	if rightFirst {
		ka, kb, kc = o1.lhs, o2.lhs, o2.rhs
	} else {
		ka, kb, kc = o1.lhs, o1.rhs, o2.rhs
	}
	// the operands of / % ^ are literals: their results leave the exact-integer fragment
	hard := func(o verifC08Op) bool { return o.text == "/" || o.text == "%" || o.text == "^" }
	atom := func(kind, pos int, lit bool) string {
		if lit && kind == okN {
			return []string{"3", "2", "3"}[pos]
		}
		return "«" + verifC08Names[kind][pos] + "»"
	}
	A, B, C := atom(ka, 0, hard(o1)), atom(kb, 1, hard(o1) || hard(o2)), atom(kc, 2, hard(o2))
	flat := A + " " + o1.text + " " + B + " " + o2.text + " " + C
	left := "(" + A + " " + o1.text + " " + B + ") " + o2.text + " " + C
	right := A + " " + o1.text + " (" + B + " " + o2.text + " " + C + ")"
	doc, other := left, right
	if rightFirst {
		doc, other = right, left
	}
	f := verifC08Eval(verifC08Plain(flat), sc)
	d := verifC08Eval(verifC08Plain(doc), sc)
	verifC08Same("precedence", f, d)
	verifC08Same("precedence-noise-inert", f, verifC08Eval(verifC08Noisy(flat), sc))
	if hard(o1) || hard(o2) {
		return
	}
	o := verifC08Eval(verifC08Plain(other), sc)
	if o.failed != d.failed || (!o.failed && !o.v.Equal(d.v)) {
		verifCover("distinguishes")
	}
}

var verifC08UnaryCases = [][2]string{
	{"-2 ^ «x»", "(-2) ^ «x»"},
	{"-«x» * «y»", "(-«x») * «y»"},
	{"!«x» && «y»", "(!«x») && «y»"},
	{"-«x» + «y»", "(-«x») + «y»"},
	{"«sx» count + 1", "(«sx» count) + 1"},
	{"«x» * «sx» count", "«x» * («sx» count)"},
	{"-«sx» count", "-(«sx» count)"},
	{"2 ^ «qx»(0)", "2 ^ («qx»(0))"},
	{"-«tx».a", "-(«tx».a)"},
	{"«x» + «y» -> . * 2", "(«x» + «y») -> . * 2"},
	{"«x» -> . + 1 -> . * 2", "(«x» -> . + 1) -> . * 2"},
	{"«sx» where . > 0 => . + 1", "(«sx» where . > 0) => . + 1"},
	{"«x» < «y» && «y» < «z» || «z» = 0", "((«x» < «y») && («y» < «z»)) || («z» = 0)"},
	{"«x» < «y» < «z»", "«x» < «y» && «y» < «z»"},
	{"«sx» | «sy» & «sz» &~ «sx»", "«sx» | ((«sy» & «sz») &~ «sx»)"},
	{"2 ^ «x» ^ 2", "2 ^ («x» ^ 2)"},
	{"«x» - «y» - «z»", "(«x» - «y») - «z»"},
	{"8 / 2 * «z»", "(8 / 2) * «z»"},
	{"«x» * «y» - «z»", "(«x» * «y») - «z»"},
	{"«sx» with «y» without «z»", "(«sx» with «y») without «z»"},
}

// verif:bound VerifC08UnaryAndChains 20 programs mixing prefix, postfix, call/attribute tails, arrows and comparison chains against their documented parenthesisation; numbers in [-2,2]
// verif:cover VerifC08UnaryAndChains value
func VerifC08UnaryAndChains() {
	c := verifC08UnaryCases[verifChoice(len(verifC08UnaryCases))]
	sc, _ := verifC08Scope()
	verifC08Pair("documented-parentheses", sc, c[0], c[1])
}

// ---------------------------------------------------------------------------------------------

const verifC08Err = "(a: 1).b"

// verif:bound VerifC08ShortCircuit 12 cond / && / || / if-else programs whose unselected branch fails when evaluated; the expected outcome is computed from x in [-2,2]
// verif:cover VerifC08ShortCircuit selected-fails selected-succeeds
func VerifC08ShortCircuit() {
	sc, n := verifC08Scope()
	x := n[0]
	E := verifC08Err
	type sc8 struct {
		src      string
		failsIff bool // the program must fail exactly when this holds
		want     int  // value otherwise (numbers only; -99 = do not compare)
	}
	pos := x > 0
	cases := []sc8{
		{"cond {«x» > 0: 1, _: " + E + "}", !pos, 1},
		{"cond {«x» > 0: " + E + ", _: 2}", pos, 2},
		{"cond {«x» > 0: 1, «x» > 1: " + E + ", _: 3}", false, verifIte(pos, 1, 3)},
		{"cond «x» {1: 10, 2: " + E + ", _: 30}", x == 2, verifIte(x == 1, 10, 30)},
		{"cond «x» {(1): " + E + ", _: 30}", x == 1, 30},
		{"«x» > 0 || " + E, !pos, -99},
		{"«x» > 0 && " + E, pos, -99},
		{"(«x» > 0 || " + E + ") && 5", !pos, 5},
		{"(«x» > 0 && " + E + ") || 5", pos, 5},
		{"1 if «x» > 0 else " + E, !pos, 1},
		{E + " if «x» > 0 else 2", pos, 2},
		{"cond {«x» > 0: cond {«x» > 1: 1, _: " + E + "}, _: 3}", x == 1, verifIte(pos, 1, 3)},
	}
	c := cases[verifChoice(len(cases))]
	style := verifChoice(2)
	src := verifC08Plain(c.src)
	if style == 1 {
		src = verifC08Noisy(c.src)
	}
	out := verifC08Eval(src, sc)
	verifAssert("fails-iff-selected-branch-fails", out.failed == c.failsIff)
	if out.failed {
		verifCover("selected-fails")
	} else {
		verifCover("selected-succeeds")
		if c.want != -99 {
			num, is := out.v.(rel.Number)
			verifAssert("selected-branch-value", is && int(num) == c.want)
		}
	}
}
