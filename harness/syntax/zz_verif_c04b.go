package syntax

import (
	"github.com/arr-ai/arrai/rel"
)

// C04 (continued): single-attribute nest (`r nest b` collects the bare values of b per group),
// including the unary relation whose only attribute is nested (no key attributes remain) and
// multi-attribute nest of every attribute.

// verif:bound VerifC04SingleNest relations over {a,b} or {b} with 1..3 rows, cells in {0,1}: `r nest b` against the grouping computed in the harness; `r nest |b|bs` on the unary relation
// verif:cover VerifC04SingleNest keyed unary
func VerifC04SingleNest() {
	unary := verifChoice(2) == 1
	n := 1 + verifChoice(3)
	type row struct{ a, b int }
	rows := make([]row, n)
	vals := make([]rel.Value, n)
	for i := range rows {
		rows[i] = row{verifNondetIntIn(0, 1), verifNondetIntIn(0, 1)}
		if unary {
			rows[i].a = 0
			vals[i] = rel.NewTuple(rel.NewAttr("b", verifC04Num(rows[i].b)))
		} else {
			vals[i] = rel.NewTuple(rel.NewAttr("a", verifC04Num(rows[i].a)), rel.NewAttr("b", verifC04Num(rows[i].b)))
		}
	}
	r := rel.MustNewSet(vals...)
	sc := rel.EmptyScope.With("r", r)
	type group struct {
		a    int
		bare []rel.Value
		tup  []rel.Value
	}
	var groups []group
	for _, x := range rows {
		found := false
		for gi := range groups {
			if groups[gi].a == x.a {
				groups[gi].bare = append(groups[gi].bare, verifC04Num(x.b))
				groups[gi].tup = append(groups[gi].tup, rel.NewTuple(rel.NewAttr("b", verifC04Num(x.b))))
				found = true
				break
			}
		}
		if !found {
			groups = append(groups, group{x.a, []rel.Value{verifC04Num(x.b)}, []rel.Value{rel.NewTuple(rel.NewAttr("b", verifC04Num(x.b)))}})
		}
	}
	single := verifChoice(2) == 0
	if !unary {
		single = true
	}
	src, name := "r nest b", "b"
	if !single {
		src, name = "r nest |b|bs", "bs"
	}
	var want []rel.Value
	for _, g := range groups {
		nested := rel.MustNewSet(g.bare...)
		if !single {
			nested = rel.MustNewSet(g.tup...)
		}
		attrs := []rel.Attr{rel.NewAttr(name, nested)}
		if !unary {
			attrs = append(attrs, rel.NewAttr("a", verifC04Num(g.a)))
		}
		want = append(want, rel.NewTuple(attrs...))
	}
	if unary {
		verifCover("unary")
	} else {
		verifCover("keyed")
	}
	out := verifC08Eval(src, sc)
	verifAssert("single-nest-evaluates", !out.failed)
	if !out.failed {
		expected := rel.MustNewSet(want...)
		verifAssert("single-nest-groups", out.v.Equal(expected) && expected.Equal(out.v))
	}
}
