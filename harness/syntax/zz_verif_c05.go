package syntax

import (
	"github.com/arr-ai/arrai/rel"
)

// C05 (continued): safe tails. `c(k)?:f` and `t.a?:f` give the element when the key is present
// and the fallback when it is absent - compiled by the real compileCallGet / compileTail and
// evaluated over collections with symbolic keys and offsets.

// verif:bound VerifC05SafeTail safe call and safe attribute access with a fallback (c(k)?:7, t.n?:7, chained t.a?.b:7, nested d(i)?(j)?:7) on a dictionary, an offset array, an offset string and tuples; keys and offsets symbolic in [-2,2]
// verif:cover VerifC05SafeTail present absent
func VerifC05SafeTail() {
	x := verifNondetIntIn(-2, 2) // a dictionary key
	o := verifNondetIntIn(-2, 2) // the offset of the array and of the string
	k := verifNondetIntIn(-2, 2) // the key asked for
	num := func(n int) rel.Value { return rel.NewNumber(float64(n)) }
	verifAssume(x != 1)
	d := rel.MustNewDict(false, rel.NewDictEntryTuple(num(x), num(10)), rel.NewDictEntryTuple(num(1), num(20)))
	q := rel.NewOffsetArray(o, num(5), num(6))
	s := rel.NewOffsetString([]rune("ab"), o)
	t := rel.NewTuple(rel.NewAttr("a", rel.NewTuple(rel.NewAttr("b", num(x)))))
	dd := rel.MustNewDict(false, rel.NewDictEntryTuple(num(1), d))
	sc := rel.EmptyScope.With("d", d).With("q", q).With("s", s).With("t", t).With("dd", dd).With("k", num(k))
	type c5 struct {
		src     string
		present bool
		val     int
	}
	inSeq := k >= o && k < o+2
	cases := []c5{
		{"d(k)?:7", k == x || k == 1, verifIte(k == x, 10, 20)},
		{"q(k)?:7", inSeq, verifIte(k == o, 5, 6)},
		{"s(k)?:7", inSeq, verifIte(k == o, 'a', 'b')},
		{"t.a?.b:7", true, x},
		{"t.z?:7", false, 0},
		{"t.z?.b:7", false, 0},
		{"t.a?.z?:7", false, 0}, // every step that may be absent carries its own `?`
		{"dd(1)?(k)?:7", k == x || k == 1, verifIte(k == x, 10, 20)},
		{"dd(k)?(1)?:7", k == 1, 20},
		{"(d(k)?:7) + 1", true, verifIte(k == x, 11, verifIte(k == 1, 21, 8))},
	}
	c := cases[verifChoice(len(cases))]
	out := verifC08Eval(c.src, sc)
	verifAssert("safe-tail-evaluates", !out.failed)
	if out.failed {
		return
	}
	n, isNum := out.v.(rel.Number)
	verifAssert("safe-tail-number", isNum)
	if !isNum {
		return
	}
	if verifConcretize(verifIte(c.present, 1, 0), 0, 1) == 1 {
		verifCover("present")
		verifAssert("safe-tail-element", int(n) == c.val)
	} else {
		verifCover("absent")
		verifAssert("safe-tail-fallback", int(n) == 7)
	}
}
