package syntax

import (
	"context"

	"github.com/arr-ai/arrai/rel"
)

// C14 — //seq functions agree across strings, byte arrays and arrays and with their textbook
// definitions. Abstract sequences over a 3-symbol alphabet (symbolic, so overlaps and repeated
// prefixes are solver-found) are presented in the three representations; the reference is
// computed on []int by the textbook definition.

func verifSeq(n int) []int {
	xs := make([]int, n)
	for i := range xs {
		xs[i] = verifNondetIntIn(0, 2)
	}
	return xs
}

// rep: 0 string, 1 bytes, 2 array of numbers
func verifMk(rep int, xs []int) rel.Value {
	if len(xs) == 0 {
		return rel.None
	}
	switch rep {
	case 0:
		rs := make([]rune, len(xs))
		for i, x := range xs {
			rs[i] = rune('a' + x)
		}
		return rel.NewString(rs)
	case 1:
		bs := make([]byte, len(xs))
		for i, x := range xs {
			bs[i] = byte('a' + x)
		}
		return rel.NewBytes(bs)
	default:
		vs := make([]rel.Value, len(xs))
		for i, x := range xs {
			vs[i] = rel.NewNumber(float64(x))
		}
		return rel.NewArray(vs...)
	}
}

// reference definitions (plain Go: branches on symbolic data fork, which is fine in an oracle)

func refMatchAt(s, p []int, i int) bool {
	if i+len(p) > len(s) {
		return false
	}
	for j := range p {
		if s[i+j] != p[j] {
			return false
		}
	}
	return true
}

func refIndex(s, p []int) int {
	for i := 0; i+len(p) <= len(s); i++ {
		if refMatchAt(s, p, i) {
			return i
		}
	}
	return -1
}

func refContains(s, p []int) bool { return refIndex(s, p) >= 0 }

func refHasPrefix(s, p []int) bool { return len(p) <= len(s) && refMatchAt(s, p, 0) }

func refHasSuffix(s, p []int) bool { return len(p) <= len(s) && refMatchAt(s, p, len(s)-len(p)) }

// refSub: leftmost, non-overlapping replacement; an empty pattern matches before every element
// and at the end (strings.ReplaceAll semantics).
func refSub(s, old, new []int) []int {
	var out []int
	if len(old) == 0 {
		for _, x := range s {
			out = append(append(out, new...), x)
		}
		return append(out, new...)
	}
	for i := 0; i < len(s); {
		if refMatchAt(s, old, i) {
			out = append(out, new...)
			i += len(old)
		} else {
			out = append(out, s[i])
			i++
		}
	}
	return out
}

// refSplit: segments between leftmost non-overlapping delimiters (non-empty delimiter).
func refSplit(s, d []int) [][]int {
	var out [][]int
	cur := []int{}
	for i := 0; i < len(s); {
		if refMatchAt(s, d, i) {
			out = append(out, cur)
			cur = []int{}
			i += len(d)
		} else {
			cur = append(cur, s[i])
			i++
		}
	}
	return append(out, cur)
}

func verifSame(label string, got rel.Value, err error, rep int, want []int) {
	verifAssert(label+"-no-error", err == nil)
	if err != nil {
		return
	}
	verifAssert(label, verifMk(rep, want).Equal(got))
}

func verifBoolIs(label string, got rel.Value, err error, want bool) {
	verifAssert(label+"-no-error", err == nil)
	if err != nil {
		return
	}
	verifAssert(label, got.IsTrue() == want)
}

// verif:bound VerifC14Predicates subject length <=4 (thorough: <=5), pattern length <=3, alphabet {0,1,2}, 3 representations
// verif:cover VerifC14Predicates contains-true contains-false prefix-true suffix-true
func VerifC14Predicates() {
	rep := verifChoice(3)
	extra := 0
	if verifThorough() {
		extra = 1
	}
	n := verifChoice(5 + extra)
	m := verifChoice(4)
	s := verifSeq(n)
	p := verifSeq(m)
	subj, pat := verifMk(rep, s), verifMk(rep, p)
	ctx := context.Background()
	switch verifChoice(3) {
	case 0:
		want := refContains(s, p)
		if want {
			verifCover("contains-true")
		} else {
			verifCover("contains-false")
		}
		got, err := stdSeqContains(ctx, pat, subj)
		verifBoolIs("contains", got, err, want)
	case 1:
		want := refHasPrefix(s, p)
		if want && m > 0 {
			verifCover("prefix-true")
		}
		got, err := stdSeqHasPrefix(ctx, pat, subj)
		verifBoolIs("has_prefix", got, err, want)
	case 2:
		want := refHasSuffix(s, p)
		if want && m > 0 {
			verifCover("suffix-true")
		}
		got, err := stdSeqHasSuffix(ctx, pat, subj)
		verifBoolIs("has_suffix", got, err, want)
	}
}

// verif:bound VerifC14Trim subject length <=3 (thorough: <=4), affix length <=2, alphabet {0,1,2}, 3 representations
// verif:cover VerifC14Trim trimmed-prefix trimmed-suffix
func VerifC14Trim() {
	rep := verifChoice(3)
	extra := 0
	if verifThorough() {
		extra = 1
	}
	n := verifChoice(4 + extra)
	m := verifChoice(3)
	s := verifSeq(n)
	p := verifSeq(m)
	subj, pat := verifMk(rep, s), verifMk(rep, p)
	ctx := context.Background()
	switch verifChoice(2) {
	case 0:
		want := s
		if refHasPrefix(s, p) {
			want = s[len(p):]
			if m > 0 {
				verifCover("trimmed-prefix")
			}
		}
		got, err := stdSeqTrimPrefix(ctx, pat, subj)
		verifSame("trim_prefix", got, err, rep, want)
	case 1:
		want := s
		if refHasSuffix(s, p) {
			want = s[:len(s)-len(p)]
			if m > 0 {
				verifCover("trimmed-suffix")
			}
		}
		got, err := stdSeqTrimSuffix(ctx, pat, subj)
		verifSame("trim_suffix", got, err, rep, want)
	}
}

// verif:bound VerifC14Sub subject length <=3, old length <=2, new length <=1, alphabet {0,1,2}, 3 representations
// verif:cover VerifC14Sub replaced
func VerifC14Sub() {
	rep := verifChoice(3)
	n := verifChoice(4)
	m := verifChoice(3)
	k := verifChoice(2)
	s := verifSeq(n)
	old := verifSeq(m)
	nw := verifSeq(k)
	ctx := context.Background()
	want := refSub(s, old, nw)
	if m > 0 && refContains(s, old) {
		verifCover("replaced")
	}
	got, err := stdSeqSub(ctx, verifMk(rep, old), verifMk(rep, nw), verifMk(rep, s))
	verifSame("sub", got, err, rep, want)
}

// verif:bound VerifC14SplitJoin subject length <=3, delimiter length 1..2, alphabet {0,1,2}, 3 representations
// verif:cover VerifC14SplitJoin split-many
func VerifC14SplitJoin() {
	rep := verifChoice(3)
	n := 1 + verifChoice(3)
	m := 1 + verifChoice(2)
	s := verifSeq(n)
	d := verifSeq(m)
	ctx := context.Background()
	parts := refSplit(s, d)
	if len(parts) > 1 {
		verifCover("split-many")
	}
	got, err := stdSeqSplit(ctx, verifMk(rep, d), verifMk(rep, s))
	verifAssert("split-no-error", err == nil)
	if err != nil {
		return
	}
	wantVals := make([]rel.Value, len(parts))
	for i, part := range parts {
		wantVals[i] = verifMk(rep, part)
	}
	verifAssert("split", rel.NewArray(wantVals...).Equal(got))
	// join inverts split
	// Known finding: //seq.join of an array of byte arrays is rejected ("element must be rel.Array").
	verifKnown("KF-C14-bytes-join", "join-no-error", rep == 1)
	back, err := stdSeqJoin(ctx, verifMk(rep, d), got)
	verifSame("join", back, err, rep, s)
}
