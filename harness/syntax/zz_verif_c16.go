package syntax

import (
	"context"
	"errors"
	"io"
	"io/fs"
	"os"
	"path"
	"strings"
	"time"

	"github.com/spf13/afero"

	"github.com/arr-ai/arrai/pkg/ctxfs"
	"github.com/arr-ai/arrai/pkg/ctxrootcache"
	"github.com/arr-ai/arrai/pkg/importcache"
)

// C16 — local imports stay inside the module (path confinement kernel).
//
// The import path is a symbolic string: the program text `//{./Q}` or `//{/Q}` is lexed on a
// concrete twin of the same length (verifShadow; the PKGPATH token is "any characters but \ and
// }", so no token boundary depends on Q) and everything after the lexer - compilePackage,
// path.Clean, importLocalFile, findRootFromModule, fileValue - runs on the symbolic bytes.
// A recording read-only afero.Fs notes every file the compilation tries to read.

type verifC16Fs struct {
	files  map[string]string
	opened []string
}

type verifC16Info struct {
	name string
	size int64
}

func (i verifC16Info) Name() string       { return i.name }
func (i verifC16Info) Size() int64        { return i.size }
func (i verifC16Info) Mode() os.FileMode  { return 0o644 }
func (i verifC16Info) ModTime() time.Time { return time.Time{} }
func (i verifC16Info) IsDir() bool        { return false }
func (i verifC16Info) Sys() interface{}   { return nil }

type verifC16File struct {
	name string
	data string
	pos  int
}

func (f *verifC16File) Close() error { return nil }
func (f *verifC16File) Read(p []byte) (int, error) {
	if f.pos >= len(f.data) {
		return 0, io.EOF
	}
	n := copy(p, f.data[f.pos:])
	f.pos += n
	return n, nil
}
func (f *verifC16File) ReadAt(p []byte, off int64) (int, error)      { return 0, errors.New("unused") }
func (f *verifC16File) Seek(offset int64, whence int) (int64, error) { return 0, errors.New("unused") }
func (f *verifC16File) Write(p []byte) (int, error)                  { return 0, errors.New("read-only") }
func (f *verifC16File) WriteAt(p []byte, off int64) (int, error)     { return 0, errors.New("read-only") }
func (f *verifC16File) Name() string                                 { return f.name }
func (f *verifC16File) Readdir(count int) ([]os.FileInfo, error)     { return nil, errors.New("unused") }
func (f *verifC16File) Readdirnames(n int) ([]string, error)         { return nil, errors.New("unused") }
func (f *verifC16File) Stat() (os.FileInfo, error) {
	return verifC16Info{name: f.name, size: int64(len(f.data))}, nil
}
func (f *verifC16File) Sync() error                       { return nil }
func (f *verifC16File) Truncate(size int64) error         { return errors.New("read-only") }
func (f *verifC16File) WriteString(s string) (int, error) { return 0, errors.New("read-only") }

func (f *verifC16Fs) Name() string { return "verifC16Fs" }
func (f *verifC16Fs) Open(name string) (afero.File, error) {
	f.opened = append(f.opened, name)
	for k, data := range f.files {
		if k == name {
			return &verifC16File{name: name, data: data}, nil
		}
	}
	return nil, fs.ErrNotExist
}
func (f *verifC16Fs) OpenFile(name string, flag int, perm os.FileMode) (afero.File, error) {
	return f.Open(name)
}
func (f *verifC16Fs) Stat(name string) (os.FileInfo, error) {
	for k, data := range f.files {
		if k == name {
			return verifC16Info{name: name, size: int64(len(data))}, nil
		}
	}
	return nil, fs.ErrNotExist
}
func (f *verifC16Fs) Create(name string) (afero.File, error)    { return nil, errors.New("read-only") }
func (f *verifC16Fs) Mkdir(name string, perm os.FileMode) error { return errors.New("read-only") }
func (f *verifC16Fs) MkdirAll(p string, perm os.FileMode) error { return errors.New("read-only") }
func (f *verifC16Fs) Remove(name string) error                  { return errors.New("read-only") }
func (f *verifC16Fs) RemoveAll(p string) error                  { return errors.New("read-only") }
func (f *verifC16Fs) Rename(oldname, newname string) error      { return errors.New("read-only") }
func (f *verifC16Fs) Chmod(name string, mode os.FileMode) error { return errors.New("read-only") }
func (f *verifC16Fs) Chown(name string, uid, gid int) error     { return errors.New("read-only") }
func (f *verifC16Fs) Chtimes(name string, atime time.Time, mtime time.Time) error {
	return errors.New("read-only")
}

func verifC16Confinement(maxLen int) {
	rootForm := verifChoice(2) == 1 // //{/Q} (from the module root) or //{./Q} (from the script's directory)
	module := verifChoice(2) == 1   // is there a go.mod above the script?
	n := 1 + verifChoice(maxLen)
	q := make([]byte, n)
	twin := make([]byte, n)
	for k := range q {
		c := verifNondetByte()
		verifAssume(c == '.' || c == '/' || c == ' ' || c == 'a')
		q[k] = c
		twin[k] = 'a'
	}
	head := "//{./"
	if rootForm {
		head = "//{/"
	}
	src := verifShadow(head+string(q)+"}", head+string(twin)+"}")

	scriptDir := "/m/a"
	if verifChoice(2) == 1 {
		scriptDir = "/m" // the script lives in the module root itself
	}
	files := map[string]string{
		"/m/a/a.arrai":   "1",
		"/m/a/a/a.arrai": "2",
		"/a.arrai":       "4", // outside every root
		"/m/a.arrai":     "5",
		"/m.arrai":       "6", // outside every root
	}
	if module {
		files["/m/go.mod"] = "module m\n"
	}
	rec := &verifC16Fs{files: files}
	ctx := ctxfs.SourceFsOnto(context.Background(), rec)
	ctx = ctxrootcache.WithRootCache(ctx)
	ctx = importcache.WithNewImportCache(ctx)
	_, err := Compile(ctx, scriptDir+"/main.arrai", src)

	// the directory every read must stay beneath: the module root, or the script's own
	// directory when there is no module
	root := "/m"
	if !module {
		root = scriptDir
		if rootForm {
			verifCover("no-module-root-import")
			verifAssert("root-import-without-module-fails", err != nil)
			verifAssert("root-import-without-module-reads-nothing", len(rec.opened) == 0)
			return
		}
	}
	if err == nil {
		verifCover("imported")
	} else {
		verifCover("rejected")
	}
	for _, o := range rec.opened {
		verifCover("read-attempt")
		c := path.Clean(o)
		// the root directory itself is not outside (reading it as a file simply fails)
		verifAssert("read-confined-to-root", c == root || strings.HasPrefix(c, root+"/"))
	}
}

// verif:bound VerifC16Confinement import paths /Q with Q of 1..4 characters over { . / space a } (symbolic), both import forms (//{./Q} relative to the script, //{/Q} relative to the module root /m), script in /m/a or in /m, with and without /m/go.mod; lexing on a concrete twin
// verif:cover VerifC16Confinement imported rejected read-attempt no-module-root-import
func VerifC16Confinement() { verifC16Confinement(4) }

// verif:bound VerifC16ConfinementThorough as VerifC16Confinement with Q of 1..7 characters
// verif:cover VerifC16ConfinementThorough imported rejected read-attempt no-module-root-import
func VerifC16ConfinementThorough() { verifC16Confinement(7) }
