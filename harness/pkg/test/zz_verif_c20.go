package test

import (
	"context"

	"github.com/arr-ai/arrai/rel"
)

// C20 — `arrai test` passes exactly when every leaf is true (result-tree part).
// The tree is produced by the real constructors; the census of leaves is known by construction.

type verifCensus struct {
	leaves, trues int
}

func verifLeaf(c *verifCensus, kinds int) rel.Value {
	c.leaves++
	switch verifChoice(kinds) {
	case 0:
		c.trues++
		return rel.True
	case 1:
		return rel.None
	case 2:
		return rel.NewNumber(42)
	default:
		// a plain set is a leaf (and an invalid one)
		return rel.MustNewSet(rel.NewNumber(1), rel.NewNumber(2))
	}
}

func verifTree(c *verifCensus, depth int) rel.Value {
	if depth == 0 {
		return verifLeaf(c, 3)
	}
	kind := verifChoice(4)
	if kind == 3 {
		return verifLeaf(c, 4)
	}
	n := 1 + verifChoice(2)
	kids := make([]rel.Value, n)
	for i := range kids {
		kids[i] = verifTree(c, depth-1)
	}
	switch kind {
	case 0:
		attrs := make([]rel.Attr, n)
		for i, k := range kids {
			attrs[i] = rel.NewAttr(string(rune('a'+i)), k)
		}
		return rel.NewTuple(attrs...)
	case 1:
		// arrays may start at any offset
		return rel.NewOffsetArray(verifNondetIntIn(-2, 2), kids...)
	default:
		es := make([]rel.DictEntryTuple, n)
		for i, k := range kids {
			es[i] = rel.NewDictEntryTuple(rel.NewNumber(float64(i)), k)
		}
		return rel.MustNewDict(false, es...)
	}
}

// verif:bound VerifC20LeafCensus result trees of depth <=2 and width <=2 over tuples, (offset) arrays and dicts; leaves true/false/number/plain set
// verif:cover VerifC20LeafCensus all-true some-false nested
func VerifC20LeafCensus() {
	var c verifCensus
	tree := verifTree(&c, 2)
	var results []Result
	var err error
	p := verifTry(func() { results, err = RunExpr(context.Background(), tree) })
	verifAssert("no-panic", !p)
	if p {
		return
	}
	verifAssert("no-error", err == nil)
	verifAssert("one-result-per-leaf", len(results) == c.leaves)
	stats := calcStats([]File{{Path: "x_test.arrai", Results: results}})
	verifAssert("total-is-leaf-count", stats.total == c.leaves)
	verifAssert("counts-add-up", stats.total == stats.passed+stats.failed+stats.invalid+stats.ignored)
	verifAssert("passed-is-true-leaves", stats.passed == c.trues)
	verifAssert("run-fails-iff-some-leaf-not-true", stats.runFailed == (c.trues != c.leaves))
	// each leaf reported once: names are pairwise distinct
	for i := range results {
		for j := 0; j < i; j++ {
			verifAssert("distinct-paths", results[i].Name != results[j].Name)
		}
	}
	if c.trues == c.leaves {
		verifCover("all-true")
	} else {
		verifCover("some-false")
	}
	if c.leaves >= 3 {
		verifCover("nested")
	}
}

// verif:bound VerifC20SparseArray an array container with a hole between two leaves
// verif:cover VerifC20SparseArray hole
func VerifC20SparseArray() {
	a := rel.NewArray(rel.True, rel.True, rel.True).Without(rel.NewArrayItemTuple(1, rel.True))
	verifCover("hole")
	var results []Result
	var err error
	p := verifTry(func() { results, err = RunExpr(context.Background(), a) })
	verifAssert("no-panic", !p)
	if p {
		return
	}
	verifAssert("no-error", err == nil)
	stats := calcStats([]File{{Path: "x_test.arrai", Results: results}})
	verifAssert("holes-are-not-leaves", stats.total == 2 && stats.passed == 2 && !stats.runFailed)
}

// verif:bound VerifC20SharedPath two leaves that are reported under one path: a dictionary key carrying two values, or a tuple attribute named like a nested path ((a: (b: L1), 'a.b': L2)); leaves true/false/number
// verif:cover VerifC20SharedPath dict-key-two-values attribute-named-like-a-path all-true some-false
func VerifC20SharedPath() {
	var c verifCensus
	var tree rel.Value
	if verifChoice(2) == 0 {
		verifCover("dict-key-two-values")
		l1 := verifLeaf(&c, 3)
		l2 := verifLeaf(&c, 3)
		if l1.Equal(l2) {
			return // one entry, not two
		}
		k := rel.NewNumber(float64(verifNondetIntIn(0, 1)))
		tree = rel.NewTuple(rel.NewAttr("cases",
			rel.MustNewDict(true, rel.NewDictEntryTuple(k, l1), rel.NewDictEntryTuple(k, l2))))
	} else {
		verifCover("attribute-named-like-a-path")
		l1 := verifLeaf(&c, 3)
		l2 := verifLeaf(&c, 3)
		tree = rel.NewTuple(rel.NewAttr("a", rel.NewTuple(rel.NewAttr("b", l1))), rel.NewAttr("a.b", l2))
	}
	var results []Result
	var err error
	p := verifTry(func() { results, err = RunExpr(context.Background(), tree) })
	verifAssert("shared-path-no-panic", !p)
	if p {
		return
	}
	verifAssert("shared-path-no-error", err == nil)
	verifAssert("shared-path-one-result-per-leaf", len(results) == c.leaves)
	stats := calcStats([]File{{Path: "x_test.arrai", Results: results}})
	verifAssert("shared-path-total-is-leaf-count", stats.total == c.leaves)
	verifAssert("shared-path-passed-is-true-leaves", stats.passed == c.trues)
	verifAssert("shared-path-run-fails-iff-some-leaf-not-true", stats.runFailed == (c.trues != c.leaves))
	if c.trues == c.leaves {
		verifCover("all-true")
	} else {
		verifCover("some-false")
	}
}
