package test

import (
	"context"
	"errors"
	"io"
	"io/fs"
	"os"
	"sort"
	"strings"
	"time"

	"github.com/spf13/afero"

	"github.com/arr-ai/arrai/pkg/ctxfs"
)

// C20 (continued): which files `arrai test` picks up. The real getTestFiles and afero.Walk run
// against a harness-written read-only filesystem whose layout is chosen per run.

type verifTNode struct {
	isDir    bool
	data     string
	children []string
}

type verifTFs struct{ nodes map[string]*verifTNode }

type verifTInfo struct {
	name  string
	isDir bool
	size  int64
}

func (i verifTInfo) Name() string       { return i.name }
func (i verifTInfo) Size() int64        { return i.size }
func (i verifTInfo) Mode() os.FileMode  { return 0o644 }
func (i verifTInfo) ModTime() time.Time { return time.Time{} }
func (i verifTInfo) IsDir() bool        { return i.isDir }
func (i verifTInfo) Sys() interface{}   { return nil }

func verifBase(p string) string {
	if k := strings.LastIndex(p, "/"); k >= 0 {
		return p[k+1:]
	}
	return p
}

type verifTFile struct {
	fs   *verifTFs
	name string
	pos  int
}

func (f *verifTFile) Close() error { return nil }
func (f *verifTFile) Read(p []byte) (int, error) {
	n := f.fs.nodes[f.name]
	if f.pos >= len(n.data) {
		return 0, io.EOF
	}
	k := copy(p, n.data[f.pos:])
	f.pos += k
	return k, nil
}
func (f *verifTFile) ReadAt(p []byte, off int64) (int, error)      { return 0, errors.New("unused") }
func (f *verifTFile) Seek(offset int64, whence int) (int64, error) { return 0, errors.New("unused") }
func (f *verifTFile) Write(p []byte) (int, error)                  { return 0, errors.New("read-only") }
func (f *verifTFile) WriteAt(p []byte, off int64) (int, error)     { return 0, errors.New("read-only") }
func (f *verifTFile) Name() string                                 { return f.name }
func (f *verifTFile) Readdir(count int) ([]os.FileInfo, error) {
	var out []os.FileInfo
	for _, c := range f.fs.nodes[f.name].children {
		n := f.fs.nodes[f.name+"/"+c]
		out = append(out, verifTInfo{name: c, isDir: n.isDir, size: int64(len(n.data))})
	}
	return out, nil
}
func (f *verifTFile) Readdirnames(n int) ([]string, error) {
	return append([]string(nil), f.fs.nodes[f.name].children...), nil
}
func (f *verifTFile) Stat() (os.FileInfo, error) { return f.fs.Stat(f.name) }
func (f *verifTFile) Sync() error                { return nil }
func (f *verifTFile) Truncate(size int64) error  { return errors.New("read-only") }
func (f *verifTFile) WriteString(s string) (int, error) {
	return 0, errors.New("read-only")
}

func (f *verifTFs) Name() string                                  { return "verifTFs" }
func (f *verifTFs) Create(name string) (afero.File, error)        { return nil, errors.New("read-only") }
func (f *verifTFs) Mkdir(name string, perm os.FileMode) error     { return errors.New("read-only") }
func (f *verifTFs) MkdirAll(path string, perm os.FileMode) error  { return errors.New("read-only") }
func (f *verifTFs) Remove(name string) error                      { return errors.New("read-only") }
func (f *verifTFs) RemoveAll(path string) error                   { return errors.New("read-only") }
func (f *verifTFs) Rename(oldname, newname string) error          { return errors.New("read-only") }
func (f *verifTFs) Chmod(name string, mode os.FileMode) error     { return errors.New("read-only") }
func (f *verifTFs) Chown(name string, uid, gid int) error         { return errors.New("read-only") }
func (f *verifTFs) Chtimes(name string, a, m time.Time) error     { return errors.New("read-only") }
func (f *verifTFs) Open(name string) (afero.File, error) {
	if _, has := f.nodes[name]; !has {
		return nil, fs.ErrNotExist
	}
	return &verifTFile{fs: f, name: name}, nil
}
func (f *verifTFs) OpenFile(name string, flag int, perm os.FileMode) (afero.File, error) {
	return f.Open(name)
}
func (f *verifTFs) Stat(name string) (os.FileInfo, error) {
	n, has := f.nodes[name]
	if !has {
		return nil, fs.ErrNotExist
	}
	return verifTInfo{name: verifBase(name), isDir: n.isDir, size: int64(len(n.data))}, nil
}

func (f *verifTFs) add(dir, name string, isDir bool) string {
	p := dir + "/" + name
	f.nodes[p] = &verifTNode{isDir: isDir, data: "true"}
	d := f.nodes[dir]
	d.children = append(d.children, name)
	return p
}

// verif:bound VerifC20TestFileDiscovery layouts under one root: optional a_test.arrai, a non-test file, a hidden directory with a test file, a sub-directory with any subset of {.gitkeep, s_test.arrai, z_test.arrai} and an optional nested directory with a test file
// verif:cover VerifC20TestFileDiscovery nested hidden-dir dotfile
func VerifC20TestFileDiscovery() {
	fsys := &verifTFs{nodes: map[string]*verifTNode{"/t": {isDir: true}}}
	var want []string
	if verifChoice(2) == 1 {
		want = append(want, fsys.add("/t", "a_test.arrai", false))
	}
	if verifChoice(2) == 1 {
		fsys.add("/t", "b.arrai", false)
	}
	if verifChoice(2) == 1 {
		verifCover("hidden-dir")
		h := fsys.add("/t", ".hidden", true)
		fsys.add(h, "h_test.arrai", false) // must be skipped
	}
	if verifChoice(2) == 1 {
		sub := fsys.add("/t", "sub", true)
		if verifChoice(2) == 1 {
			verifCover("dotfile")
			fsys.add(sub, ".gitkeep", false)
		}
		if verifChoice(2) == 1 {
			want = append(want, fsys.add(sub, "s_test.arrai", false))
		}
		if verifChoice(2) == 1 {
			verifCover("nested")
			deep := fsys.add(sub, "deep", true)
			want = append(want, fsys.add(deep, "d_test.arrai", false))
		}
		if verifChoice(2) == 1 {
			want = append(want, fsys.add(sub, "z_test.arrai", false))
		}
	}
	for _, n := range fsys.nodes {
		sort.Strings(n.children)
	}
	sort.Strings(want)
	ctx := ctxfs.SourceFsOnto(context.Background(), fsys)
	var files []File
	var err error
	p := verifTry(func() { files, err = getTestFiles(ctx, "/t") })
	verifAssert("discovery-no-panic", !p)
	if p {
		return
	}
	if len(want) == 0 {
		verifAssert("no-test-files-is-an-error", err != nil)
		return
	}
	verifAssert("discovery-no-error", err == nil)
	if err != nil {
		return
	}
	got := make([]string, len(files))
	for i, f := range files {
		got[i] = f.Path
	}
	sort.Strings(got)
	verifAssert("every-test-file-found-once", len(got) == len(want))
	if len(got) == len(want) {
		for i := range want {
			verifAssert("every-test-file-found-once", got[i] == want[i])
		}
	}
	for _, f := range files {
		verifAssert("file-content-read", f.Source == "true")
	}
}
