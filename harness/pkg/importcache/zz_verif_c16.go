package importcache

import (
	"errors"

	"github.com/arr-ai/arrai/rel"
)

// C16 (H2) — import cycles fail fast; concurrent importers of one file agree. The real
// importCache.getOrAdd runs under the executor's scheduler; add callbacks are stubs.

// verif:bound VerifC16ConcurrentSameKey two goroutines importing the same key, the add callback succeeding or failing (chosen per run), all interleavings within the context bound
// verif:cover VerifC16ConcurrentSameKey both-ok add-failed
func VerifC16ConcurrentSameKey() {
	c := newImportCache()
	fail := verifChoice(2) == 1
	calls := 0
	add := func() (rel.Expr, error) {
		calls++
		verifYield()
		if fail {
			return nil, errors.New("import failed")
		}
		return rel.NewNumber(float64(calls)), nil
	}
	var v1, v2 rel.Expr
	var e1, e2 error
	done := make(chan struct{})
	verifGo(func() {
		v2, e2 = c.getOrAdd("k", add)
		close(done)
	})
	v1, e1 = c.getOrAdd("k", add)
	<-done
	if fail {
		verifCover("add-failed")
		verifAssert("failure-reported-to-someone", e1 != nil || e2 != nil)
		return
	}
	verifCover("both-ok")
	verifAssert("no-error", e1 == nil && e2 == nil)
	if e1 == nil && e2 == nil {
		verifAssert("same-value-for-both-importers", v1.(rel.Value).Equal(v2.(rel.Value)))
		verifAssert("imported-once", calls == 1)
	}
}

// verif:bound VerifC16ImportCycle a self-cycle (a imports a) and a 2-cycle (a imports b imports a) on one goroutine
// verif:cover VerifC16ImportCycle entered
func VerifC16ImportCycle() {
	c := newImportCache()
	two := verifChoice(2) == 1
	verifCover("entered")
	// Known finding: a re-entrant import of a key that is being added waits on the condition
	// variable for itself: an import cycle hangs instead of failing.
	verifKnown("KF-C16-import-cycle-hangs", "*", true)
	var inner func() (rel.Expr, error)
	depth := 0
	inner = func() (rel.Expr, error) {
		depth++
		if depth > 3 {
			return rel.NewNumber(0), nil
		}
		key := "a"
		if two && depth == 1 {
			key = "b"
		}
		return c.getOrAdd(key, inner)
	}
	_, err := c.getOrAdd("a", inner)
	verifAssert("cycle-is-an-error", err != nil)
}

// verif:bound VerifC16TwoKeys three goroutines: two import key a (the first one slowly), one imports key b meanwhile (its completion broadcasts on the one shared condition variable); all interleavings within the context bound
// verif:cover VerifC16TwoKeys ran
func VerifC16TwoKeys() {
	c := newImportCache()
	callsA := 0
	addA := func() (rel.Expr, error) {
		callsA++
		verifYield()
		verifYield()
		verifYield()
		return rel.NewNumber(42), nil
	}
	addB := func() (rel.Expr, error) { return rel.NewNumber(7), nil }
	var v1, v2, v3 rel.Expr
	var e1, e2, e3 error
	d2, d3 := make(chan struct{}), make(chan struct{})
	verifGo(func() {
		v2, e2 = c.getOrAdd("a", addA)
		close(d2)
	})
	verifGo(func() {
		verifYield() // natively: let the second importer of a reach its wait first
		v3, e3 = c.getOrAdd("b", addB)
		close(d3)
	})
	v1, e1 = c.getOrAdd("a", addA)
	<-d2
	<-d3
	verifCover("ran")
	verifAssert("no-error", e1 == nil && e2 == nil && e3 == nil)
	verifAssert("every-importer-gets-the-value", v1 != nil && v2 != nil && v3 != nil)
	if v1 != nil && v2 != nil && v3 != nil {
		verifAssert("same-value-for-both-importers", v1.(rel.Value).Equal(rel.NewNumber(42)) && v2.(rel.Value).Equal(rel.NewNumber(42)))
		verifAssert("other-key-unaffected", v3.(rel.Value).Equal(rel.NewNumber(7)))
		verifAssert("imported-once", callsA == 1)
	}
}
