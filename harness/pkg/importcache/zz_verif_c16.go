package importcache

import (
	"errors"

	"github.com/arr-ai/arrai/rel"
)

// C16 (H2) — import cycles fail fast; concurrent importers of one file agree. The real
// importCache.getOrAdd runs under the executor's scheduler; add callbacks are stubs.

// verif:bound VerifC16ConcurrentSameKey two goroutines importing the same key, the add callback succeeding or failing (chosen per run), all interleavings within the context bound
// verif:cover VerifC16ConcurrentSameKey both-ok add-failed
func VerifC16ConcurrentSameKey() {
	c := newImportCache()
	fail := verifChoice(2) == 1
	calls := 0
	add := func() (rel.Expr, error) {
		calls++
		verifYield()
		if fail {
			return nil, errors.New("import failed")
		}
		return rel.NewNumber(float64(calls)), nil
	}
	var v1, v2 rel.Expr
	var e1, e2 error
	done := make(chan struct{})
	verifGo(func() {
		v2, e2 = c.getOrAdd("k", add)
		close(done)
	})
	v1, e1 = c.getOrAdd("k", add)
	<-done
	if fail {
		verifCover("add-failed")
		verifAssert("failure-reported-to-someone", e1 != nil || e2 != nil)
		return
	}
	verifCover("both-ok")
	verifAssert("no-error", e1 == nil && e2 == nil)
	if e1 == nil && e2 == nil {
		verifAssert("same-value-for-both-importers", v1.(rel.Value).Equal(v2.(rel.Value)))
		verifAssert("imported-once", calls == 1)
	}
}

// verif:bound VerifC16ImportCycle a self-cycle (a imports a) and a 2-cycle (a imports b imports a) on one goroutine
// verif:cover VerifC16ImportCycle entered
func VerifC16ImportCycle() {
	c := newImportCache()
	two := verifChoice(2) == 1
	verifCover("entered")
	// Known finding: a re-entrant import of a key that is being added waits on the condition
	// variable for itself: an import cycle hangs instead of failing.
	verifKnown("KF-C16-import-cycle-hangs", "*", true)
	var inner func() (rel.Expr, error)
	depth := 0
	inner = func() (rel.Expr, error) {
		depth++
		if depth > 3 {
			return rel.NewNumber(0), nil
		}
		key := "a"
		if two && depth == 1 {
			key = "b"
		}
		return c.getOrAdd(key, inner)
	}
	_, err := c.getOrAdd("a", inner)
	verifAssert("cycle-is-an-error", err != nil)
}
