package arrai

import (
	"context"
	"errors"
	"io/fs"
	"os"
	"strings"
	"time"

	"github.com/spf13/afero"

	"github.com/arr-ai/arrai/pkg/ctxfs"
	"github.com/arr-ai/arrai/rel"
)

// C19 — --out writes exactly the described tree, or changes nothing.
// Environment: a harness-written afero.Fs whose pre-existing state (absent / file / dir per
// relevant path) and whose failures (each filesystem call may fail) are chosen per run; every
// mutating call is logged.

type verifNode struct {
	isDir bool
	data  []byte
}

type verifFs struct {
	nodes     map[string]*verifNode
	mutations []string
	faultAt   int // index of the filesystem call that fails (-1: none)
	calls     int
	fired     bool
}

var errVerifIO = errors.New("injected I/O error")

func (f *verifFs) fault() bool {
	k := f.calls
	f.calls++
	if k == f.faultAt {
		f.fired = true
		return true
	}
	return false
}

type verifInfo struct {
	name  string
	isDir bool
	size  int64
}

func (i verifInfo) Name() string       { return i.name }
func (i verifInfo) Size() int64        { return i.size }
func (i verifInfo) Mode() os.FileMode  { return 0o644 }
func (i verifInfo) ModTime() time.Time { return time.Time{} }
func (i verifInfo) IsDir() bool        { return i.isDir }
func (i verifInfo) Sys() interface{}   { return nil }

type verifFile struct {
	fs   *verifFs
	name string
}

func (f *verifFile) Close() error                                  { return nil }
func (f *verifFile) Read(p []byte) (int, error)                    { return 0, errors.New("unused") }
func (f *verifFile) ReadAt(p []byte, off int64) (int, error)       { return 0, errors.New("unused") }
func (f *verifFile) Seek(offset int64, whence int) (int64, error)  { return 0, errors.New("unused") }
func (f *verifFile) WriteAt(p []byte, off int64) (int, error)      { return 0, errors.New("unused") }
func (f *verifFile) Name() string                                  { return f.name }
func (f *verifFile) Readdir(count int) ([]os.FileInfo, error)      { return nil, errors.New("unused") }
func (f *verifFile) Readdirnames(n int) ([]string, error)          { return nil, errors.New("unused") }
func (f *verifFile) Stat() (os.FileInfo, error)                    { return nil, errors.New("unused") }
func (f *verifFile) Truncate(size int64) error                     { return errors.New("unused") }
func (f *verifFile) WriteString(s string) (int, error)             { return f.Write([]byte(s)) }
func (f *verifFile) Sync() error {
	if f.fs.fault() {
		return errVerifIO
	}
	return nil
}
func (f *verifFile) Write(p []byte) (int, error) {
	if f.fs.fault() {
		return 0, errVerifIO
	}
	n := f.fs.nodes[f.name]
	n.data = append(n.data, p...)
	return len(p), nil
}

func (f *verifFs) Name() string { return "verifFs" }
func (f *verifFs) Create(name string) (afero.File, error) {
	if f.fault() {
		return nil, errVerifIO
	}
	f.mutations = append(f.mutations, "create "+name)
	f.nodes[name] = &verifNode{}
	return &verifFile{fs: f, name: name}, nil
}
func (f *verifFs) Mkdir(name string, perm os.FileMode) error {
	if f.fault() {
		return errVerifIO
	}
	f.mutations = append(f.mutations, "mkdir "+name)
	f.nodes[name] = &verifNode{isDir: true}
	return nil
}
func (f *verifFs) MkdirAll(path string, perm os.FileMode) error { return f.Mkdir(path, perm) }
func (f *verifFs) Open(name string) (afero.File, error)          { return nil, errors.New("unused") }
func (f *verifFs) OpenFile(name string, flag int, perm os.FileMode) (afero.File, error) {
	return nil, errors.New("unused")
}
func (f *verifFs) Remove(name string) error { return f.RemoveAll(name) }
func (f *verifFs) RemoveAll(path string) error {
	if f.fault() {
		return errVerifIO
	}
	f.mutations = append(f.mutations, "removeall "+path)
	for k := range f.nodes {
		if k == path || strings.HasPrefix(k, path+"/") {
			delete(f.nodes, k)
		}
	}
	return nil
}
func (f *verifFs) Rename(oldname, newname string) error { return errors.New("unused") }
func (f *verifFs) Stat(name string) (os.FileInfo, error) {
	if f.fault() {
		return nil, errVerifIO
	}
	n, has := f.nodes[name]
	if !has {
		return nil, fs.ErrNotExist
	}
	return verifInfo{name: name, isDir: n.isDir, size: int64(len(n.data))}, nil
}
func (f *verifFs) Chmod(name string, mode os.FileMode) error                    { return errors.New("unused") }
func (f *verifFs) Chown(name string, uid, gid int) error                        { return errors.New("unused") }
func (f *verifFs) Chtimes(name string, atime time.Time, mtime time.Time) error { return errors.New("unused") }

func verifStr(s string) rel.Value { return rel.NewString([]rune(s)) }

// validity of a description: clear-cut invalid (unknown ifExists value, unsupported entry kind),
// clear-cut valid, or unspecified (config/payload combinations whose legality depends on the
// pre-existing state; nothing is asserted about acceptance for those).
const (
	vInvalid = iota
	vValid
	vUnspecified
)

func vAnd(a, b int) int {
	if a == vInvalid || b == vInvalid {
		return vInvalid
	}
	if a == vUnspecified || b == vUnspecified {
		return vUnspecified
	}
	return vValid
}

// verifDirPayloads counts the config tuples with a dir payload in the current description: the
// validation pass creates their directories (known finding), after which the real pass may find
// "existing" targets that the description itself created.
var verifDirPayloads int

// verifEntry returns one dictionary entry value and its validity.
func verifEntry(depth int) (rel.Value, int) {
	switch verifChoice(6) {
	case 0:
		return verifStr("text"), vValid
	case 1:
		return rel.NewBytes([]byte{1, 2}), vValid
	case 2:
		return rel.None, vValid // empty file
	case 3:
		if depth == 0 {
			return verifStr("leaf"), vValid
		}
		v, ok := verifEntry(depth - 1)
		return rel.MustNewDict(false, rel.NewDictEntryTuple(verifStr("c"), v)), ok
	case 4:
		// a config tuple
		modes := []string{ifExistsIgnore, ifExistsRemove, ifExistsReplace, ifExistsMerge, ifExistsFail, "bogus"}
		m := verifChoice(len(modes))
		attrs := []rel.Attr{rel.NewAttr(ifExistsConfig, verifStr(modes[m]))}
		payload := verifChoice(3)
		switch payload {
		case 1:
			attrs = append(attrs, rel.NewAttr(fileField, verifStr("cfg")))
		case 2:
			verifDirPayloads++
			attrs = append(attrs, rel.NewAttr(dirField, rel.MustNewDict(false, rel.NewDictEntryTuple(verifStr("c"), verifStr("x")))))
		}
		valid := vUnspecified
		switch modes[m] {
		case "bogus":
			valid = vInvalid
		case ifExistsMerge:
			if payload == 2 {
				valid = vValid
			} else if payload == 1 {
				valid = vInvalid // merge never takes a file, whatever exists
			}
		case ifExistsRemove:
			if payload == 0 {
				valid = vValid
			} else {
				valid = vInvalid // remove never takes a payload, whatever exists
			}
		default:
			if payload != 0 {
				valid = vValid
			}
		}
		return rel.NewTuple(attrs...), valid
	default:
		return rel.NewNumber(7), vInvalid // not a dict, string or byte array
	}
}

// verif:bound VerifC19OutDir output dictionaries of 1..2 entries (string, bytes, empty, nested dict, config tuple with each ifExists value and payload, invalid number), 4 pre-existing states (nothing; the target; the target with entry a as a file or a directory; the target with entry b as a file), one injected fault at any of the first 6 filesystem calls
// verif:cover VerifC19OutDir valid invalid fault-fired preexisting
func VerifC19OutDir() {
	verifDirPayloads = 0
	fsys := &verifFs{nodes: map[string]*verifNode{}, faultAt: verifChoice(7) - 1}
	// pre-existing state
	switch verifChoice(4) {
	case 1:
		fsys.nodes["out"] = &verifNode{isDir: true}
	case 3:
		// the second entry's target exists already
		fsys.nodes["out"] = &verifNode{isDir: true}
		fsys.nodes["out/b"] = &verifNode{data: []byte("old")}
	case 2:
		fsys.nodes["out"] = &verifNode{isDir: true}
		verifCover("preexisting")
		if verifChoice(2) == 0 {
			fsys.nodes["out/a"] = &verifNode{data: []byte("old")}
		} else {
			fsys.nodes["out/a"] = &verifNode{isDir: true}
		}
	}
	n := 1 + verifChoice(2)
	valid := vValid
	var entries []rel.DictEntryTuple
	for k := 0; k < n; k++ {
		depth := 1
		if k > 0 {
			depth = 0 // keep the second entry simple
		}
		v, ok := verifEntry(depth)
		valid = vAnd(valid, ok)
		entries = append(entries, rel.NewDictEntryTuple(verifStr(string(rune('a'+k))), v))
	}
	value := rel.MustNewDict(false, entries...)
	ctx := ctxfs.RuntimeFsOnto(context.Background(), fsys)
	var err error
	p := verifTry(func() { err = outputValue(ctx, value, "dir:out") })
	verifAssert("out-no-panic", !p)
	if p {
		return
	}
	if fsys.fired {
		verifCover("fault-fired")
		verifAssert("io-error-is-reported", err != nil)
	}
	for _, m := range fsys.mutations {
		parts := strings.SplitN(m, " ", 2)
		verifAssert("mutations-stay-beneath-target", parts[1] == "out" || strings.HasPrefix(parts[1], "out/"))
	}
	// Atomicity, whatever the classification of the description: a run that reports an error
	// without an injected I/O fault has rejected the description, so it must not have changed
	// anything (directories created by the validation pass: known finding).
	if err != nil && !fsys.fired {
		onlyMkdir := true
		for _, m := range fsys.mutations {
			if !strings.HasPrefix(m, "mkdir ") {
				onlyMkdir = false
			}
		}
		verifKnown("KF-C19-dry-run-mkdir", "rejected-description-changes-nothing", onlyMkdir || verifDirPayloads > 0)
		verifAssert("rejected-description-changes-nothing", len(fsys.mutations) == 0)
	}
	if valid == vInvalid {
		verifCover("invalid")
		verifAssert("invalid-description-is-an-error", err != nil)
		// Known finding: the validation pass already creates the target directories (and an
		// existing test relies on it: replace with both file and dir is only rejected because
		// the dry run has created the target).
		onlyMkdir := true
		for _, m := range fsys.mutations {
			if !strings.HasPrefix(m, "mkdir ") {
				onlyMkdir = false
			}
		}
		verifKnown("KF-C19-dry-run-mkdir", "invalid-description-changes-nothing", onlyMkdir)
		verifAssert("invalid-description-changes-nothing", len(fsys.mutations) == 0)
	} else if valid == vValid && !fsys.fired {
		verifCover("valid")
	}
}
