package engine

import (
	"context"
	"errors"

	"github.com/arr-ai/wbnf/parser"

	"github.com/arr-ai/arrai/rel"
)

// C17 — the server engine applies updates atomically, in order, and never wedges.
// The real actor loop (engine.Start) runs as a guest goroutine under the executor's scheduler;
// the client history is chosen by the harness; expressions are stubs whose failure is chosen
// per history; every interleaving of the goroutines is explored.

type verifFailExpr struct{}

func (verifFailExpr) String() string          { return "fail" }
func (verifFailExpr) Source() parser.Scanner  { return *parser.NewScanner("") }
func (verifFailExpr) Eval(context.Context, rel.Scope) (rel.Value, error) {
	return nil, errors.New("stub failure")
}

type verifObs struct {
	got    []int
	closed int
	since  int // index into the state history at subscription time
	cancel func()
	bad    bool // its expression or callback fails
	late   bool // received an update after it had been closed
}

const (
	opUpdate = iota
	opUpdateFail
	opObserve
	opObserveFailExpr
	opObserveFailCallback
	opCancel
	opCancelTwice
	opHangup
	opCount
)

// verif:bound VerifC17History one client issuing 1..3 (thorough: 1..4) operations out of {update, failing update, observe, observe with failing expression, observe with failing callback, cancel, cancel twice, hang-up} against the real engine goroutine, all interleavings
// verif:cover VerifC17History observed-update update-rejected
func VerifC17History() {
	e := Start()
	maxOps := 3
	if verifThorough() {
		maxOps = 4
	}
	nops := 1 + verifChoice(maxOps)
	states := []int{-1} // -1 stands for the initial {}
	var obs []*verifObs
	next := 1
	root := rel.NewIdentExpr(*parser.NewScanner(""), Root)
	for k := 0; k < nops; k++ {
		op := verifChoice(opCount)
		// Known finding: an observer whose expression or callback fails makes the engine call
		// cancel() on its own goroutine, which sends on removeWatcher to itself (deadlock).
		verifKnown("KF-C17-failing-observer-self-send", "*", op == opObserveFailExpr || op == opObserveFailCallback)
		switch op {
		case opUpdate:
			v := next
			next++
			err := e.Update(rel.NewNumber(float64(v)))
			verifAssert("update-accepted", err == nil)
			states = append(states, v)
		case opUpdateFail:
			err := e.Update(verifFailExpr{})
			verifAssert("failing-update-reported", err != nil)
			verifCover("update-rejected")
		case opObserve, opObserveFailExpr, opObserveFailCallback:
			o := &verifObs{since: len(states) - 1, bad: op != opObserve}
			var expr rel.Expr = root
			if op == opObserveFailExpr {
				expr = verifFailExpr{}
			}
			failCb := op == opObserveFailCallback
			o.cancel = e.Observe(expr, func(v rel.Value) error {
				if o.closed > 0 {
					o.late = true
				}
				if n, is := v.(rel.Number); is {
					o.got = append(o.got, int(n))
				} else {
					o.got = append(o.got, -1)
				}
				if failCb {
					return errors.New("callback failure")
				}
				return nil
			}, func(error) { o.closed++ })
			obs = append(obs, o)
		case opCancel, opCancelTwice:
			if len(obs) == 0 {
				continue
			}
			o := obs[0]
			if o.cancel != nil {
				o.cancel()
				if op == opCancelTwice {
					o.cancel()
				}
				o.cancel = nil
				o.bad = true // no further expectations
			}
		case opHangup:
			e.Hangup()
			for _, o := range obs {
				o.bad = true // closed by the hang-up; a later cancel must be harmless
			}
		}
	}
	e.Stop()
	// an observer is closed at most once, and hears nothing after it has been closed
	for _, o := range obs {
		verifAssert("observer-closed-at-most-once", o.closed <= 1)
		verifAssert("no-update-after-close", !o.late)
	}
	// every live, well-behaved observer saw exactly the states installed since it subscribed
	for _, o := range obs {
		if o.bad {
			continue
		}
		want := states[o.since:]
		verifAssert("observer-saw-every-state-in-order", len(o.got) == len(want))
		if len(o.got) == len(want) {
			for k := range want {
				verifAssert("observer-saw-every-state-in-order", o.got[k] == want[k])
			}
			if len(want) > 1 {
				verifCover("observed-update")
			}
		}
	}
}
