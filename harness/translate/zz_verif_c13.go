package translate

// C13 — H1: the JSON/YAML object <-> arr.ai translator pair (the text codecs themselves,
// encoding/json and yaml.v3, are outside the claim).

func verifDoc(depth int) interface{} {
	k := verifChoice(6)
	if depth == 0 && k >= 4 {
		k = verifChoice(4)
	}
	switch k {
	case 0:
		return nil
	case 1:
		return verifNondetBool()
	case 2:
		if verifChoice(2) == 0 {
			return float64(verifNondetIntIn(-3, 3))
		}
		return []float64{0.5, -1.5, 2.25, 1e19, -9223372036854775808, 1e300}[verifChoice(6)]
	case 3:
		switch verifChoice(3) {
		case 0:
			return ""
		case 1:
			return string(rune('a' + verifNondetIntIn(0, 25)))
		default:
			return "s"
		}
	case 4:
		n := verifChoice(1 + depth) // nested containers hold at most one member
		a := make([]interface{}, n)
		for i := range a {
			a[i] = verifDoc(depth - 1)
		}
		return a
	default:
		n := verifChoice(1 + depth)
		m := map[string]interface{}{}
		keys := []string{"a", "b"}
		for i := 0; i < n; i++ {
			m[keys[i]] = verifDoc(depth - 1)
		}
		return m
	}
}

func verifNum(x interface{}) (float64, bool) {
	switch v := x.(type) {
	case float64:
		return v, true
	case int:
		return float64(v), true
	}
	return 0, false
}

// verifSameDoc: structural equality of decoded documents, numbers compared by value.
func verifSameDoc(x, y interface{}) bool {
	if fx, ok := verifNum(x); ok {
		fy, ok2 := verifNum(y)
		return ok2 && fx == fy
	}
	switch vx := x.(type) {
	case nil:
		return y == nil
	case bool:
		vy, ok := y.(bool)
		return ok && vx == vy
	case string:
		vy, ok := y.(string)
		return ok && vx == vy
	case []interface{}:
		vy, ok := y.([]interface{})
		if !ok || len(vx) != len(vy) {
			return false
		}
		for i := range vx {
			if !verifSameDoc(vx[i], vy[i]) {
				return false
			}
		}
		return true
	case map[string]interface{}:
		vy, ok := y.(map[string]interface{})
		if !ok || len(vx) != len(vy) {
			return false
		}
		for k, e := range vx {
			f, has := vy[k]
			if !has || !verifSameDoc(e, f) {
				return false
			}
		}
		return true
	}
	return false
}

// verif:bound VerifC13TranslatorStrict decoded documents of depth <=2, width <=2 at the top and <=1 nested (null, bool, integers and halves in [-3,3.5], strings of length <=1, arrays, objects with keys a,b); strict translator
// verif:cover VerifC13TranslatorStrict nested empty-container
func VerifC13TranslatorStrict() {
	t := StrictTranslator()
	x := verifDoc(2)
	switch v := x.(type) {
	case []interface{}:
		if len(v) == 0 {
			verifCover("empty-container")
		} else if _, ok := v[0].(map[string]interface{}); ok {
			verifCover("nested")
		}
	case map[string]interface{}:
		if len(v) == 0 {
			verifCover("empty-container")
		}
	}
	y, err := t.ToArrai(x)
	verifAssert("to-arrai-no-error", err == nil)
	if err != nil {
		return
	}
	z, err := t.FromArrai(y)
	verifAssert("from-arrai-no-error", err == nil)
	if err != nil {
		return
	}
	verifAssert("decode-encode-same-content", verifSameDoc(x, z))
	y2, err := t.ToArrai(z)
	verifAssert("re-decode-no-error", err == nil)
	if err != nil {
		return
	}
	verifAssert("decode-encode-decode-idempotent", y.Equal(y2))
}

// verif:bound VerifC13TranslatorNumber every finite float64 as a JSON number (strict and non-strict translators)
// verif:cover VerifC13TranslatorNumber whole fractional
func VerifC13TranslatorNumber() {
	t := NewTranslator(verifChoice(2) == 1)
	f := verifNondetFloat64()
	verifAssume(!verifIsNaN(f))
	verifAssume(f-f == 0) // finite
	y, err := t.ToArrai(f)
	verifAssert("to-arrai-no-error", err == nil)
	if err != nil {
		return
	}
	z, err := t.FromArrai(y)
	verifAssert("from-arrai-no-error", err == nil)
	if err != nil {
		return
	}
	switch v := z.(type) {
	case int:
		verifCover("whole")
		verifAssert("number-same-value", float64(v) == f)
	case float64:
		verifCover("fractional")
		verifAssert("number-same-value", v == f)
	default:
		verifAssert("number-stays-number", false)
	}
}
