package rel

import (
	"encoding/json"
	"strconv"
)

// C13 (continued): the server wire format. MarshalToJSON is json.Marshal(jsonEscape(v)) and
// UnmarshalFromJSON is jsonUnescape(json.Unmarshal(text)). encoding/json itself is outside the
// executor's reach; it is replaced by its contract for the plain JSON types (bool, float64,
// string, []interface{}, map[string]interface{} survive a Marshal/Unmarshal round trip unchanged
// - float64 is written in shortest round-trip form; a json.Number is written verbatim and read
// back by strconv.ParseFloat). The harness requires jsonEscape to produce only those types and
// checks jsonUnescape(text(jsonEscape(v))) = v.

// verifWireText is what json.Unmarshal(json.Marshal(x)) gives for the types above.
func verifWireText(x interface{}) interface{} {
	switch x := x.(type) {
	case json.Number:
		f, err := strconv.ParseFloat(string(x), 64)
		if err != nil {
			return x
		}
		return f
	case []interface{}:
		out := make([]interface{}, len(x))
		for i, e := range x {
			out[i] = verifWireText(e)
		}
		return out
	case map[string]interface{}:
		out := make(map[string]interface{}, len(x))
		for k, e := range x {
			out[k] = verifWireText(e)
		}
		return out
	}
	return x
}

// verifWirePlain reports whether x consists only of the JSON types that encoding/json round-trips.
func verifWirePlain(x interface{}) bool {
	switch x := x.(type) {
	case bool, float64, string:
		return true
	case []interface{}:
		for _, e := range x {
			if !verifWirePlain(e) {
				return false
			}
		}
		return true
	case map[string]interface{}:
		for _, e := range x {
			if !verifWirePlain(e) {
				return false
			}
		}
		return true
	}
	return false
}

func verifWireNumber() Number {
	switch verifChoice(3) {
	case 0:
		f := verifNondetFloat64()
		verifAssume(!verifIsNaN(f) && f-f == 0) // finite
		return NewNumber(f)
	case 1:
		// one ulp away from a short decimal
		return NewNumber([]float64{0.1 + 0.2, 1.1 + 2.2, 0.29999999999999993, 1.0000000000000002e22}[verifChoice(4)])
	default:
		return verifSmallNum()
	}
}

// verif:bound VerifC13WireFormat values the wire format represents faithfully (numbers: any finite float64, four floats one ulp from a short decimal, small integers; strings of 0..2 symbolic chars; true/false; tuples and dense arrays of those, depth <=2); encoding/json replaced by its round-trip contract on plain JSON types
// verif:cover VerifC13WireFormat number string tuple array boolean
func VerifC13WireFormat() {
	str := func() Value {
		n := verifChoice(3)
		rs := make([]rune, n)
		for i := range rs {
			rs[i] = verifSmallChar()
		}
		return NewString(rs)
	}
	var v Value
	switch verifChoice(6) {
	case 0:
		verifCover("number")
		v = verifWireNumber()
	case 1:
		verifCover("string")
		v = str()
	case 2:
		verifCover("boolean")
		if verifChoice(2) == 0 {
			v = True
		} else {
			v = None
		}
	case 3:
		verifCover("tuple")
		v = NewTuple(NewAttr("a", verifWireNumber()), NewAttr("b", str()))
	case 4:
		verifCover("array")
		v = NewArray(verifWireNumber(), verifWireNumber())
	default:
		v = NewTuple(NewAttr("t", NewTuple(NewAttr("n", verifWireNumber()))), NewAttr("xs", NewArray(verifWireNumber(), True)))
	}
	var wire interface{}
	p := verifTry(func() { wire = jsonEscape(v) })
	verifAssert("wire-escape-no-panic", !p)
	if p {
		return
	}
	wire = verifWireText(wire)
	verifAssert("wire-carries-plain-json-types", verifWirePlain(wire))
	if !verifWirePlain(wire) {
		return
	}
	back, err := jsonUnescape(wire)
	verifAssert("wire-unescape-no-error", err == nil)
	if err != nil {
		return
	}
	verifAssert("wire-round-trip-equal", back.Equal(v) && v.Equal(back))
}
