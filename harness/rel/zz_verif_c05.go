package rel

import (
	"context"

	"github.com/arr-ai/wbnf/parser"
)

// C05 — keyed collections act as functions; >>, >>>, ++ and offsets keep keys right.

// verifSeqValue builds a String (rep 0), Bytes (rep 1) or Array of numbers (rep 2) of length
// 1..maxLen at a symbolic offset, optionally with one interior/edge element removed through the
// real Without (so holes arise the way they do in production). It returns the value and its
// denotation as (index, value) pairs taken from the raw fields.
func verifSeqValue(rep, maxLen int, holes bool) (Set, []verifPair) {
	n := 1 + verifChoice(maxLen)
	o := verifNondetIntIn(-2, 2)
	var s Set
	switch rep {
	case 0:
		rs := make([]rune, n)
		for i := range rs {
			rs[i] = verifSmallChar()
		}
		s = NewOffsetString(rs, o)
		if holes && n == 3 && verifChoice(2) == 1 {
			s = s.Without(NewStringCharTuple(o+1, rs[1]))
		}
	case 1:
		bs := make([]byte, n)
		for i := range bs {
			bs[i] = byte(verifSmallChar())
		}
		s = NewOffsetBytes(bs, o)
	default:
		vs := make([]Value, n)
		for i := range vs {
			vs[i] = verifSmallNum()
		}
		s = NewOffsetArray(o, vs...)
		if holes && n == 3 && verifChoice(2) == 1 {
			s = s.Without(NewArrayItemTuple(o+1, vs[1]))
		}
	}
	return s, verifDenSeq(s)
}

// verifDenSeq: (index, numeric value) pairs of a sequence-like set from raw fields / enumeration.
func verifDenSeq(s Set) []verifPair {
	var d []verifPair
	switch s := s.(type) {
	case String:
		for i, r := range s.s {
			d = append(d, verifPair{at: s.offset + i, v: int(r), ok: r >= 0})
		}
	case Bytes:
		for i, b := range s.b {
			d = append(d, verifPair{at: s.offset + i, v: int(b), ok: true})
		}
	case Array:
		for i, v := range s.values {
			if v == nil {
				d = append(d, verifPair{at: s.offset + i, v: 0, ok: false})
			} else if n, is := v.(Number); is {
				d = append(d, verifPair{at: s.offset + i, v: int(n), ok: true})
			} else {
				d = append(d, verifPair{at: s.offset + i, v: -12345, ok: true})
			}
		}
	default:
		for e := s.Enumerator(); e.MoveNext(); {
			switch t := e.Current().(type) {
			case StringCharTuple:
				d = append(d, verifPair{at: t.at, v: int(t.char), ok: true})
			case BytesByteTuple:
				d = append(d, verifPair{at: t.at, v: int(t.byteval), ok: true})
			case ArrayItemTuple:
				if n, is := t.item.(Number); is {
					d = append(d, verifPair{at: t.at, v: int(n), ok: true})
				} else {
					d = append(d, verifPair{at: t.at, v: -12345, ok: true})
				}
			default:
				d = append(d, verifPair{at: -99, v: -99, ok: true})
			}
		}
	}
	return d
}

// verifDenAtCount: how many present pairs have index k; verifDenAtValue: the value at k (when unique).
func verifDenAtCount(d []verifPair, k int) int {
	n := 0
	for _, p := range d {
		n += verifIte(verifAnd(p.ok, p.at == k), 1, 0)
	}
	return n
}

func verifDenAtValue(d []verifPair, k int) int {
	v := 0
	for _, p := range d {
		v = verifIte(verifAnd(p.ok, p.at == k), p.v, v)
	}
	return v
}

// verif:bound VerifC05Call String/Bytes/Array of length 1..3 (thorough: 1..4; one hole possible), offset in [-2,2]; argument: integer in [-4,6], integer+0.5, or a tuple
// verif:cover VerifC05Call hit miss fractional wrong-kind
func VerifC05Call() {
	rep := verifChoice(3)
	s, d := verifSeqValue(rep, verifWiden(3, 4), true)
	ctx := context.Background()
	k := verifNondetIntIn(-4, 6)
	switch verifChoice(3) {
	case 0:
		res, err := SetCall(ctx, s, NewNumber(float64(k)))
		cnt := verifDenAtCount(d, k)
		if err == nil {
			verifCover("hit")
			verifAssert("call-unique", cnt == 1)
			n, is := res.(Number)
			verifAssert("call-number", is)
			if is {
				verifAssert("call-value", int(n) == verifDenAtValue(d, k))
			}
		} else {
			verifCover("miss")
			verifAssert("call-error-iff-none", cnt != 1)
		}
	case 1:
		// a non-integer key is never present
		verifCover("fractional")
		_, err := SetCall(ctx, s, NewNumber(float64(verifChoice(4))-1.5))
		verifAssert("fractional-key-is-error", err != nil)
	case 2:
		verifCover("wrong-kind")
		_, err := SetCall(ctx, s, NewTuple(NewAttr("a", NewNumber(float64(k)))))
		verifAssert("wrong-kind-key-is-error", err != nil)
	}
}

// verifUFBody is the body of the element transformer: f(x) = uf(x) clipped to a valid char/byte.
type verifUFBody struct {
	ExprScanner
	withAt bool
}

func (b verifUFBody) String() string { return "uf(x)" }

func (b verifUFBody) Eval(ctx context.Context, local Scope) (Value, error) {
	x, _ := local.Get("x")
	n := x.(Number)
	return NewNumber(float64(verifF(int(n)))), nil
}

func verifF(x int) int { return verifUF1("f", x) & 63 }

// verif:bound VerifC05SeqArrow >> over String/Bytes/Array of length 1..3 (thorough: 1..4; one hole possible), offset in [-2,2], transformer an uninterpreted function into [0,63]
// verif:cover VerifC05SeqArrow with-hole no-hole
func VerifC05SeqArrow() {
	rep := verifChoice(3)
	s, d := verifSeqValue(rep, verifWiden(3, 4), true)
	ctx := context.Background()
	fn := NewFunction(*parser.NewScanner(""), IdentPattern("x"), verifUFBody{})
	e := NewSeqArrowExpr(false)(*parser.NewScanner(""), s, fn)
	hasHole := false
	for _, p := range d {
		if !p.ok {
			hasHole = true
		}
	}
	if hasHole {
		verifCover("with-hole")
	} else {
		verifCover("no-hole")
	}
	res, err := e.Eval(ctx, EmptyScope)
	verifAssert("seqarrow-no-error", err == nil)
	if err != nil {
		return
	}
	rs, isSet := res.(Set)
	verifAssert("seqarrow-set", isSet)
	if !isSet {
		return
	}
	got := verifDenSeq(rs)
	want := make([]verifPair, len(d))
	for i, p := range d {
		want[i] = verifPair{at: p.at, v: verifF(p.v), ok: p.ok}
	}
	verifAssert("seqarrow-keys-and-values", verifDenEq(got, want))
	verifAssert("seqarrow-count", rs.Count() == verifDenCount(want))
}

// verif:bound VerifC05Concat a ++ b for String/Bytes/Array pairs of the same kind, each length 1..2 (thorough: 1..3; a left string 1..3 with possibly one interior hole, or 5 wide with two adjacent interior holes), offsets in [-2,2]
// verif:cover VerifC05Concat clean collision
func VerifC05Concat() {
	rep := verifChoice(3)
	maxLen := verifWiden(2, 3)
	// the left string may carry an interior hole (its index span then exceeds its element count)
	aLen := maxLen
	if rep == 0 {
		aLen = 3
	}
	a, da := verifSeqValue(rep, aLen, rep == 0)
	if rep == 0 && verifChoice(2) == 1 {
		// two adjacent interior holes, made by the real Without: the index right after the
		// element count is then free, so the appended part lands in the gap without colliding
		o := verifNondetIntIn(-1, 1)
		rs := []rune{verifSmallChar(), verifSmallChar(), 'x', 'y', verifSmallChar()}
		a = NewOffsetString(rs, o).Without(NewStringCharTuple(o+2, 'x')).Without(NewStringCharTuple(o+3, 'y'))
		da = verifDenSeq(a)
	}
	b, db := verifSeqValue(rep, maxLen, false)
	want := append([]verifPair(nil), da...)
	na := a.Count()
	for _, p := range db {
		want = append(want, verifPair{at: p.at + na, v: p.v, ok: p.ok})
	}
	// Known finding: when the shifted right operand lands on an index the left operand already
	// occupies (left operand with a non-zero offset), two members share an index and the
	// sequence builders keep only one of them.
	verifKnown("KF-C05-concat-collision", "*", verifDenDupIndexAny(want))
	// Known finding (same defect as KF-C01-bytes-sparse): a byte-array result with a gap is
	// zero-filled by asBytes.
	verifKnown("KF-C05-concat-bytes-sparse", "*", verifAnd(rep == 1, verifDenSparse(want)))
	res, err := Concatenate(a, b)
	verifAssert("concat-no-error", err == nil)
	if err != nil {
		return
	}
	if verifDenCount(want) == res.Count() {
		verifCover("clean")
	} else {
		verifCover("collision")
	}
	got := verifDenSeq(res)
	verifAssert("concat-members", verifDenEq(got, want))
	verifAssert("concat-count", res.Count() == verifDenCount(want))
}

// verifDenDupIndexAny: two present pairs share an index (whatever their values).
func verifDenDupIndexAny(d []verifPair) bool {
	r := false
	for i, p := range d {
		for _, q := range d[:i] {
			r = verifOr(r, verifAnd(verifAnd(p.ok, q.ok), p.at == q.at))
		}
	}
	return r
}

// verif:bound VerifC05Offset n\seq for String/Bytes/Array of length 1..3 (thorough: 1..4), offset in [-2,2], n an integer in [-3,3] or integer+0.5
// verif:cover VerifC05Offset integer fractional
func VerifC05Offset() {
	rep := verifChoice(3)
	s, d := verifSeqValue(rep, verifWiden(3, 4), true)
	ctx := context.Background()
	n := verifNondetIntIn(-3, 3)
	if verifChoice(2) == 0 {
		verifCover("integer")
		e := NewOffsetExpr(*parser.NewScanner(""), NewNumber(float64(n)), s)
		res, err := e.Eval(ctx, EmptyScope)
		verifAssert("offset-no-error", err == nil)
		if err != nil {
			return
		}
		want := make([]verifPair, len(d))
		for i, p := range d {
			want[i] = verifPair{at: p.at + n, v: p.v, ok: p.ok}
		}
		got := verifDenSeq(res.(Set))
		verifAssert("offset-members", verifDenEq(got, want))
		verifAssert("offset-count", res.(Set).Count() == verifDenCount(want))
	} else {
		verifCover("fractional")
		e := NewOffsetExpr(*parser.NewScanner(""), NewNumber(float64(verifChoice(4))-1.5), s)
		_, err := e.Eval(ctx, EmptyScope)
		verifAssert("fractional-offset-is-error", err != nil)
	}
}
