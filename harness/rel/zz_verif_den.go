package rel

// Shared oracle helpers: the denotation of sequence-like sets as (index, value, present)
// triples computed from raw representation fields (for the specialised types) or through the
// trusted frozen-model enumeration (for GenericSet/UnionSet). All comparisons use the
// non-forking verifAnd/verifOr so that one path of the code under test yields one query.

// verifWiden returns quick in the quick tier and thorough in the thorough tier (the choice is
// recorded in the replay vector, so the native run uses the same bound).
func verifWiden(quick, thorough int) int {
	if verifThorough() {
		return thorough
	}
	return quick
}

type verifPair struct {
	at, v int
	ok    bool
}

// verifDenChars returns the (at, char) pairs denoted by a set of string-char tuples.
// other counts members that are not string-char tuples.
func verifDenChars(s Set) (d []verifPair, other int) {
	switch s := s.(type) {
	case String:
		for i, r := range s.s {
			d = append(d, verifPair{at: s.offset + i, v: int(r), ok: r >= 0})
		}
		return d, 0
	}
	for e := s.Enumerator(); e.MoveNext(); {
		switch t := e.Current().(type) {
		case StringCharTuple:
			d = append(d, verifPair{at: t.at, v: int(t.char), ok: true})
		default:
			other++
		}
	}
	return d, other
}

// verifDenBytes returns the (at, byte) pairs denoted by a set of bytes-byte tuples.
func verifDenBytes(s Set) (d []verifPair, other int) {
	switch s := s.(type) {
	case Bytes:
		for i, b := range s.b {
			d = append(d, verifPair{at: s.offset + i, v: int(b), ok: true})
		}
		return d, 0
	}
	for e := s.Enumerator(); e.MoveNext(); {
		switch t := e.Current().(type) {
		case BytesByteTuple:
			d = append(d, verifPair{at: t.at, v: int(t.byteval), ok: true})
		default:
			other++
		}
	}
	return d, other
}

func verifDenHas(d []verifPair, at, v int) bool {
	r := false
	for _, p := range d {
		r = verifOr(r, verifAnd(p.ok, verifAnd(p.at == at, p.v == v)))
	}
	return r
}

func verifDenSubset(a, b []verifPair) bool {
	r := true
	for _, p := range a {
		r = verifAnd(r, verifOr(verifNot(p.ok), verifDenHas(b, p.at, p.v)))
	}
	return r
}

func verifDenEq(a, b []verifPair) bool {
	return verifAnd(verifDenSubset(a, b), verifDenSubset(b, a))
}

// verifDenCount is the number of distinct present pairs.
func verifDenCount(d []verifPair) int {
	n := 0
	for i, p := range d {
		dup := false
		for _, q := range d[:i] {
			dup = verifOr(dup, verifAnd(q.ok, verifAnd(q.at == p.at, q.v == p.v)))
		}
		n += verifIte(verifAnd(p.ok, verifNot(dup)), 1, 0)
	}
	return n
}

// verifDenWith / verifDenWithout build the reference results.
func verifDenWith(d []verifPair, at, v int) []verifPair {
	out := append([]verifPair(nil), d...)
	return append(out, verifPair{at: at, v: v, ok: true})
}

func verifDenWithout(d []verifPair, at, v int) []verifPair {
	out := make([]verifPair, len(d))
	for i, p := range d {
		out[i] = verifPair{at: p.at, v: p.v, ok: verifAnd(p.ok, verifNot(verifAnd(p.at == at, p.v == v)))}
	}
	return out
}

// verifShow prints a value natively (replay debugging); a no-op symbolically.
func verifShow(label string, v Value) {
	if !verifSymbolic() {
		verifPrint(label, v.String())
	}
}

// verifDenDupIndex: two present pairs share an index but differ in value.
func verifDenDupIndex(d []verifPair) bool {
	r := false
	for i, p := range d {
		for _, q := range d[:i] {
			r = verifOr(r, verifAnd(verifAnd(p.ok, q.ok), verifAnd(p.at == q.at, p.v != q.v)))
		}
	}
	return r
}

// verifDenIndexOtherValue: index at is occupied by a value other than v.
func verifDenIndexOtherValue(d []verifPair, at, v int) bool {
	r := false
	for _, p := range d {
		r = verifOr(r, verifAnd(p.ok, verifAnd(p.at == at, p.v != v)))
	}
	return r
}

// verifDenSparse: some absent index lies strictly between two present ones.
func verifDenSparse(d []verifPair) bool {
	r := false
	for _, a := range d {
		for _, b := range d {
			// a and b present, at least one index strictly between them, and it is not fully
			// occupied: some index a.at+1 .. b.at-1 has no present pair. With the small windows
			// used here it suffices to test "no present pair at a.at+1" for each such a < b.
			filled := false
			for _, c := range d {
				filled = verifOr(filled, verifAnd(c.ok, c.at == a.at+1))
			}
			r = verifOr(r, verifAnd(verifAnd(a.ok, b.ok), verifAnd(a.at+1 < b.at, verifNot(filled))))
		}
	}
	return r
}
