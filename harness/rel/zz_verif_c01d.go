package rel

// C01 (continued): the Array kernel - Has / Count / With / Without / Where against the
// denotation read from the raw fields (values, offset, holes).

// verif:bound VerifC01ArrayKernel arrays of 0..3 items in {0,1} at an offset in [-2,2], <=1 prior with/without operation, probe (index in [-3,5], item in {0,1}); With at an occupied index holding another item panics ("superimposed", known finding under C10) and is skipped
// verif:cover VerifC01ArrayKernel has-true has-false with without where-some hole
func VerifC01ArrayKernel() {
	n := verifChoice(4)
	items := make([]Value, n)
	for i := range items {
		items[i] = NewNumber(float64(verifNondetIntIn(0, 1)))
	}
	var p Set = NewOffsetArray(verifNondetIntIn(-2, 2), items...)
	if verifChoice(2) == 1 {
		q, crashed := verifArrayOp(p)
		if crashed {
			return
		}
		p = q
	}
	d, other := verifDenItems(p)
	verifAssert("well-formed", other == 0)
	if a, is := p.(Array); is && a.count < len(a.values) {
		verifCover("hole")
	}
	at := verifNondetIntIn(-3, 5)
	item := verifNondetIntIn(0, 1)
	t := NewArrayItemTuple(at, NewNumber(float64(item)))
	switch verifChoice(4) {
	case 0:
		has := p.Has(t)
		if has {
			verifCover("has-true")
		} else {
			verifCover("has-false")
		}
		verifAssert("has", has == verifDenHas(d, at, item))
		verifAssert("count", p.Count() == verifDenCount(d))
		// enumeration agrees with the raw fields
		seen := 0
		for e := p.Enumerator(); e.MoveNext(); {
			it, isItem := e.Current().(ArrayItemTuple)
			verifAssert("enumerates-items", isItem)
			if isItem {
				num, isNum := it.item.(Number)
				verifAssert("enumerated-member", isNum && verifDenHas(d, it.at, int(num)))
			}
			seen++
		}
		verifAssert("enumerates-count", seen == verifDenCount(d))
	case 1:
		var r Set
		if verifTry(func() { r = p.With(t) }) {
			return // superimposed items
		}
		verifCover("with")
		dr, o2 := verifDenItems(r)
		verifAssert("with-members", verifDenEq(dr, verifDenWith(d, at, item)))
		verifAssert("with-no-foreign", o2 == 0)
		verifAssert("with-count", r.Count() == verifDenCount(verifDenWith(d, at, item)))
		verifAssert("with-has", r.Has(t))
	case 2:
		r := p.Without(t)
		verifCover("without")
		dr, o2 := verifDenItems(r)
		verifAssert("without-members", verifDenEq(dr, verifDenWithout(d, at, item)))
		verifAssert("without-no-foreign", o2 == 0)
		verifAssert("without-count", r.Count() == verifDenCount(verifDenWithout(d, at, item)))
		verifAssert("without-has", !r.Has(t))
	default:
		r, err := p.Where(func(v Value) (bool, error) {
			c := v.(ArrayItemTuple)
			return verifUF1("keep", c.at)&1 == 1, nil
		})
		verifAssert("where-no-error", err == nil)
		want := make([]verifPair, len(d))
		for i, e := range d {
			want[i] = verifPair{at: e.at, v: e.v, ok: verifAnd(e.ok, verifUF1("keep", e.at)&1 == 1)}
		}
		dr, o2 := verifDenItems(r)
		if r.IsTrue() && p.IsTrue() && r.Count() < p.Count() {
			verifCover("where-some")
		}
		verifAssert("where-members", verifDenEq(dr, want))
		verifAssert("where-no-foreign", o2 == 0)
		verifAssert("where-count", r.Count() == verifDenCount(want))
	}
}
