package rel

// Smoke harnesses exercising the engine itself (self-test).

func VerifSmokeArith() {
	x := verifNondetInt()
	y := verifNondetInt()
	verifAssume(x > 0)
	verifAssume(x < 100)
	verifAssume(y > 0)
	verifAssume(y < 100)
	s := x + y
	if s > 150 {
		verifCover("big")
		verifAssert("sum-lt-200", s < 200)
	} else {
		verifCover("small")
		verifAssert("sum-pos", s > 1)
	}
}

func VerifSmokeFail() {
	x := verifNondetInt()
	verifAssume(x >= 0)
	verifAssume(x < 10)
	a := []int{1, 2, 3}
	if x < 3 {
		verifAssert("elem-small", a[x] < 3) // fails for x == 2
	}
}

func VerifSmokeString() {
	r := verifNondetRune()
	verifAssume(r >= 0)
	s := NewString([]rune{'a', r})
	verifAssert("count", s.Count() == 2)
	verifAssert("has", s.Has(NewStringCharTuple(1, r)))
}
