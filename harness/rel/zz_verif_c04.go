package rel

import (
	"context"

	"github.com/arr-ai/wbnf/parser"
)

// C04 — the join family obeys its relational definition.

type verifRow map[string]int

func verifRelation(heading []string, nrows int) (Set, []verifRow) {
	rows := make([]verifRow, nrows)
	ts := make([]Value, nrows)
	for i := range rows {
		rows[i] = verifRow{}
		attrs := make([]Attr, len(heading))
		for j, h := range heading {
			v := verifNondetIntIn(0, 1)
			rows[i][h] = v
			attrs[j] = NewAttr(h, NewNumber(float64(v)))
		}
		ts[i] = NewTuple(attrs...)
	}
	return MustNewSet(ts...), rows
}

func verifRowTuple(r verifRow, names []string) Value {
	attrs := make([]Attr, 0, len(names))
	for _, n := range names {
		attrs = append(attrs, NewAttr(n, NewNumber(float64(r[n]))))
	}
	return NewTuple(attrs...)
}

var verifLeftHeadings = [][]string{{"a"}, {"a", "b"}, {"b", "a"}, {"a", "b", "c"}}
var verifRightHeadings = [][]string{{"b"}, {"b", "c"}, {"c", "b"}, {"a", "b"}, {"d"}}

var verifJoinOps = []struct {
	name string
	mk   func(parser.Scanner, Expr, Expr) Expr
}{
	{"<&>", NewJoinExpr}, {"<->", NewComposeExpr}, {"-&-", NewJoinCommonExpr}, {"---", NewJoinExistsExpr},
	{"-&>", NewRightMatchExpr}, {"<&-", NewLeftMatchExpr}, {"-->", NewRightResidueExpr}, {"<--", NewLeftResidueExpr},
}

func verifContains(xs []string, x string) bool {
	for _, y := range xs {
		if y == x {
			return true
		}
	}
	return false
}

// verif:bound VerifC04Joins all 8 join operators on relations with 4 left headings x 5 right headings over {a,b,c,d} (every partition shape, both column orders), 1..2 (thorough: 1..3) rows per side with cells in {0,1}
// verif:cover VerifC04Joins nonempty empty no-common all-common
func VerifC04Joins() {
	lh := verifLeftHeadings[verifChoice(len(verifLeftHeadings))]
	rh := verifRightHeadings[verifChoice(len(verifRightHeadings))]
	op := verifJoinOps[verifChoice(len(verifJoinOps))]
	maxRows := verifWiden(2, 3)
	A, ra := verifRelation(lh, 1+verifChoice(maxRows))
	B, rb := verifRelation(rh, 1+verifChoice(maxRows))
	var common, leftOnly, rightOnly []string
	for _, n := range lh {
		if verifContains(rh, n) {
			common = append(common, n)
		} else {
			leftOnly = append(leftOnly, n)
		}
	}
	for _, n := range rh {
		if !verifContains(lh, n) {
			rightOnly = append(rightOnly, n)
		}
	}
	if len(common) == 0 {
		verifCover("no-common")
	}
	if len(leftOnly) == 0 && len(rightOnly) == 0 {
		verifCover("all-common")
	}
	var outNames []string
	switch op.name {
	case "<&>":
		outNames = append(append(append(outNames, leftOnly...), common...), rightOnly...)
	case "<->":
		outNames = append(append(outNames, leftOnly...), rightOnly...)
	case "-&-":
		outNames = common
	case "---":
		outNames = nil
	case "-&>":
		outNames = rh
	case "<&-":
		outNames = lh
	case "-->":
		outNames = rightOnly
	case "<--":
		outNames = leftOnly
	}
	var expected []Value
	for _, t := range ra {
		for _, u := range rb {
			agree := true
			for _, c := range common {
				if t[c] != u[c] {
					agree = false
				}
			}
			if !agree {
				continue
			}
			m := verifRow{}
			for k, v := range t {
				m[k] = v
			}
			for k, v := range u {
				m[k] = v
			}
			expected = append(expected, verifRowTuple(m, outNames))
		}
	}
	want := MustNewSet(expected...)
	e := op.mk(*parser.NewScanner(""), A, B)
	var res Value
	var err error
	p := verifTry(func() { res, err = e.Eval(context.Background(), EmptyScope) })
	verifAssert("join-no-panic", !p)
	if p {
		return
	}
	verifAssert("join-no-error", err == nil)
	if err != nil {
		return
	}
	if want.IsTrue() {
		verifCover("nonempty")
	} else {
		verifCover("empty")
	}
	rs, isSet := res.(Set)
	verifAssert("join-result-is-set", isSet)
	if !isSet {
		return
	}
	verifAssert("join-count", rs.Count() == want.Count())
	for en := want.Enumerator(); en.MoveNext(); {
		verifAssert("join-has-every-expected-tuple", rs.Has(en.Current()))
	}
	verifAssert("join-equals-definition", want.Equal(rs))
}
