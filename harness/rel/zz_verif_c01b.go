package rel

// C01 (H2) — the binary set operators across every pair of set representations: membership of a
// probe element in op(a, b) is the Boolean combination of its membership in a and b; count is the
// number of pairwise-distinct enumerated members; enumeration yields no duplicates.

var verifSetKinds = []int{vkString, vkBytes, vkArray, vkNone, vkTrue, vkGenericSet, vkDict, vkRelation}

// verifMembers lists the members of s through its enumerator (the oracle for GenericSet/
// UnionSet is the trusted frozen model; for the sugar types it is the type's own enumerator,
// which C01 H1 checks against raw fields).
func verifMembers(s Set) []Value {
	var out []Value
	for e := s.Enumerator(); e.MoveNext(); {
		out = append(out, e.Current())
	}
	return out
}

func verifIn(ms []Value, x Value) bool {
	for _, m := range ms {
		if m.Equal(x) {
			return true
		}
	}
	return false
}

// verif:bound VerifC01SetOperators |, &, &~ (difference) and ~~ (symmetric difference) on all 8x8 pairs of set representations (String, Bytes, Array, {}, true, GenericSet, Dict, Relation; <=2 members each, cells small symbolic integers/chars); probe elements: every member of a and of b
// verif:cover VerifC01SetOperators union intersect difference symdiff mixed-kinds
func VerifC01SetOperators() {
	ka := verifSetKinds[verifChoice(len(verifSetKinds))]
	kb := verifSetKinds[verifChoice(len(verifSetKinds))]
	a := verifGenValue(ka).(Set)
	b := verifGenValue(kb).(Set)
	if ka != kb {
		verifCover("mixed-kinds")
	}
	ma, mb := verifMembers(a), verifMembers(b)
	op := verifChoice(4)
	var r Set
	p := verifTry(func() {
		switch op {
		case 0:
			r = Union(a, b)
		case 1:
			r = Intersect(a, b)
		case 2:
			r = Difference(a, b)
		default:
			r = SymmetricDifference(a, b)
		}
	})
	// Known finding (C10 class): combining two sequences of the same kind that hold different
	// values at one index makes the sequence builders lose a member or panic ("superimposed").
	verifKnown("KF-C01-superimposed-operands", "*", verifSameSeqKind(ka, kb) && verifCollide(ma, mb))
	verifAssert("setop-no-panic", !p)
	if p {
		return
	}
	// Known finding KF-C01-seq-fallback: two byte arrays (or same-kind sequences with an occupied
	// index) combined through With leave the sequence representation through the broken
	// GenericSet fall-back.
	verifKnown("KF-C01-seq-fallback", "*", verifSameSeqKind(ka, kb) && verifFellBack(r))
	verifCover([]string{"union", "intersect", "difference", "symdiff"}[op])
	mr := verifMembers(r)
	probes := append(append([]Value{}, ma...), mb...)
	for _, x := range probes {
		inA, inB := verifIn(ma, x), verifIn(mb, x)
		var want bool
		switch op {
		case 0:
			want = inA || inB
		case 1:
			want = inA && inB
		case 2:
			want = inA && !inB
		default:
			want = inA != inB
		}
		verifAssert("setop-has", r.Has(x) == want)
		verifAssert("setop-enumerates", verifIn(mr, x) == want)
	}
	// no foreign members, no duplicates, count = number of members
	for i, m := range mr {
		verifAssert("setop-no-foreign", verifIn(ma, m) || verifIn(mb, m))
		for _, n := range mr[:i] {
			verifAssert("setop-no-duplicate", !m.Equal(n))
		}
	}
	verifAssert("setop-count", r.Count() == len(mr))
}

func verifSameSeqKind(ka, kb int) bool {
	return ka == kb && (ka == vkString || ka == vkBytes || ka == vkArray || ka == vkDict)
}

// verifCollide: some member of a and some member of b are different tuples with the same @.
func verifCollide(ma, mb []Value) bool {
	for _, x := range ma {
		tx, ok := x.(Tuple)
		if !ok {
			continue
		}
		ax, has := tx.Get("@")
		if !has {
			continue
		}
		for _, y := range mb {
			ty, ok := y.(Tuple)
			if !ok {
				continue
			}
			ay, has := ty.Get("@")
			if has && ax.Equal(ay) && !x.Equal(y) {
				return true
			}
		}
	}
	return false
}
