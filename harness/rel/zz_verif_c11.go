package rel

import (
	"context"

	"github.com/arr-ai/wbnf/parser"
)

// C11 — concurrent evaluation over shared values is race-free and gives serial results.
// Two guest goroutines share one value and perform the first use of its lazily cached state
// under the executor's scheduler with the happens-before race detector on.

// verif:bound VerifC11SharedTuple two goroutines, one shared 2-attribute tuple, each performing one first-use operation out of {Names, TupleOrderedNames, Less, getBucket}; all interleavings within the context bound
// verif:cover VerifC11SharedTuple ran
func VerifC11SharedTuple() {
	verifRaceDetect()
	t := NewTuple(NewAttr("b", NewNumber(2)), NewAttr("a", NewNumber(1))).(*GenericTuple)
	u := NewTuple(NewAttr("b", NewNumber(3)), NewAttr("a", NewNumber(1))).(*GenericTuple)
	op := func(k int) int {
		switch k {
		case 0:
			return t.Names().Count()
		case 1:
			return len(TupleOrderedNames(t))
		case 2:
			if t.Less(u) {
				return 1
			}
			return 0
		default:
			return len(t.getBucket().String())
		}
	}
	k1, k2 := verifChoice(4), verifChoice(4)
	var r1, r2 int
	done := make(chan struct{})
	verifGo(func() {
		r2 = op(k2)
		close(done)
	})
	r1 = op(k1)
	<-done
	verifCover("ran")
	// serial results
	want := func(k int) int {
		switch k {
		case 0, 1:
			return 2
		case 2:
			return 1
		}
		return r2 // bucket name length: whatever the serial run gives (compared below)
	}
	if k1 != 3 {
		verifAssert("result-as-if-alone", r1 == want(k1))
	}
	if k2 != 3 {
		verifAssert("result-as-if-alone", r2 == want(k2))
	}
	if k1 == 3 && k2 == 3 {
		verifAssert("result-as-if-alone", r1 == r2)
	}
}

// verif:bound VerifC11SharedRelationJoin two goroutines joining the same pair of relations (first use of the positional relation's index cache)
// verif:cover VerifC11SharedRelationJoin ran
func VerifC11SharedRelationJoin() {
	verifRaceDetect()
	mk := func(h1, h2 string, rows [][2]int) Set {
		ts := make([]Value, len(rows))
		for i, r := range rows {
			ts[i] = NewTuple(NewAttr(h1, NewNumber(float64(r[0]))), NewAttr(h2, NewNumber(float64(r[1]))))
		}
		return MustNewSet(ts...)
	}
	A := mk("a", "b", [][2]int{{1, 2}, {3, 4}})
	B := mk("b", "c", [][2]int{{2, 5}, {4, 6}})
	ctx := context.Background()
	join := func() int {
		v, err := NewJoinExpr(*parser.NewScanner(""), A, B).Eval(ctx, EmptyScope)
		if err != nil {
			return -1
		}
		return v.(Set).Count()
	}
	var r1, r2 int
	done := make(chan struct{})
	verifGo(func() {
		r2 = join()
		close(done)
	})
	r1 = join()
	<-done
	verifCover("ran")
	verifAssert("join-result-as-if-alone", r1 == 2 && r2 == 2)
}
