package rel

import (
	"context"

	"github.com/arr-ai/wbnf/parser"
)

// C10 — every program ends in a value or an error, never a crash or a hang.
// The operator expressions that can be built without the parser are applied to every pair of
// kinds of the value universe (ill-typed operands included); a Go panic escaping Eval is a
// crash. Hangs are caught by the executor's step budget and deadlock detection.

var verifBinOps = []struct {
	name string
	mk   func(parser.Scanner, Expr, Expr) Expr
}{
	{"+", NewAddExpr}, {"-", NewSubExpr}, {"*", NewMulExpr}, {"/", NewDivExpr}, {"//", NewIdivExpr}, {"%", NewModExpr},
	{"-%", NewSubModExpr}, {"^", NewPowExpr}, {"with", NewWithExpr}, {"without", NewWithoutExpr}, {"call", NewCallExpr},
	{"|", NewUnionExpr}, {"&~", NewDiffExpr}, {"~~", NewSymmDiffExpr}, {"++", NewConcatExpr}, {"<&>", NewJoinExpr},
	{"<->", NewComposeExpr}, {"-&-", NewJoinCommonExpr}, {"---", NewJoinExistsExpr}, {"-->", NewRightResidueExpr},
	{"+>", NewAddArrowExpr},
}

// Odd operand shapes for the crash matrix: values the 18-kind universe does not reach but an
// ill-typed program easily builds.
const verifOddKinds = 8

func verifGenAny(k int) Value {
	if k < vkCount {
		return verifGenValue(k)
	}
	one, two := NewNumber(1), NewNumber(2)
	switch k - vkCount {
	case 0: // a dictionary keyed by a string
		return MustNewDict(false, NewDictEntryTuple(NewString([]rune("k")), one))
	case 1: // a generic tuple whose @ is not a number
		return NewTuple(NewAttr("@", NewString([]rune("x"))), NewAttr("v", one))
	case 2: // a relation whose @ column is not numeric
		return MustNewSet(NewTuple(NewAttr("@", NewString([]rune("x"))), NewAttr("v", one)), NewTuple(NewAttr("@", EmptyTuple), NewAttr("v", two)))
	case 3: // a union of kinds
		return MustNewSet(one, NewString([]rune("a")), NewTuple(NewAttr("a", one)), NewArrayItemTuple(0, two))
	case 4: // nested arrays
		return NewArray(NewArray(one), NewArray(two, one))
	case 5: // an array with a hole
		return NewArray(one, nil, two)
	case 6: // a string with a hole
		return MustNewSet(NewStringCharTuple(0, 'a'), NewStringCharTuple(2, 'b'))
	default: // a function
		return NewNativeFunction("f", func(_ context.Context, v Value) (Value, error) { return v, nil })
	}
}

// verifC10Known declares the crash sites already recorded as known findings for this operator
// and operand kinds.
func verifC10Known(op string, ka, kb int) {
	isSeq := func(k int) bool { return k == vkString || k == vkBytes || k == vkArray }
	// several values at one index: Array.withItem "superimposed array items not supported yet"
	arr := func(k int) bool { // an array, or something holding array items
		return k == vkArray || k == vkItemTuple || k == vkCount+3 || k == vkCount+4 || k == vkCount+5
	}
	verifKnown("KF-C10-array-superimposed", "no-crash", arr(ka) && ka != vkItemTuple && arr(kb) && (op == "|" || op == "~~" || op == "with" || op == "++"))
	_ = isSeq
	// a function used where a finite set is needed: NativeFunction's Set methods panic("unimplemented")
	fn := vkCount + verifOddKinds - 1
	verifKnown("KF-C10-function-as-set", "no-crash", ka == fn || kb == fn)
}

// verif:bound VerifC10BinaryOperators 21 binary operator expressions x 26x26 operand kinds: the 18-kind value universe plus 8 odd shapes (dict with a string key, tuples and relations with a non-numeric @, a union of kinds, nested and sparse arrays, a sparse string, a function) (numbers: integers in [-2,2] or any non-NaN float; sequences L<=2; sets <=2 members)
// verif:cover VerifC10BinaryOperators value error
func VerifC10BinaryOperators() {
	verifConcreteNumbers = true
	defer func() { verifConcreteNumbers = false }()
	op := verifBinOps[verifChoice(len(verifBinOps))]
	ka := verifChoice(vkCount + verifOddKinds)
	kb := verifChoice(vkCount + verifOddKinds)
	a := verifGenAny(ka)
	b := verifGenAny(kb)
	e := op.mk(*parser.NewScanner(""), a, b)
	var err error
	p := verifTry(func() { _, err = e.Eval(context.Background(), EmptyScope) })
	verifC10Known(op.name, ka, kb)
	verifAssert("no-crash", !p)
	if p {
		return
	}
	if err != nil {
		verifCover("error")
	} else {
		verifCover("value")
	}
}

var verifUnOps = []struct {
	name string
	mk   func(parser.Scanner, Expr) Expr
}{
	{"+", NewPosExpr}, {"-", NewNegExpr}, {"^", NewPowerSetExpr}, {"!", NewNotExpr}, {"count", NewCountExpr}, {"single", NewSingleExpr},
}

// verif:bound VerifC10UnaryOperators 6 unary operator expressions x 26 operand kinds
// verif:cover VerifC10UnaryOperators value error
func VerifC10UnaryOperators() {
	verifConcreteNumbers = true
	defer func() { verifConcreteNumbers = false }()
	op := verifUnOps[verifChoice(len(verifUnOps))]
	ka := verifChoice(vkCount + verifOddKinds)
	a := verifGenAny(ka)
	e := op.mk(*parser.NewScanner(""), a)
	var err error
	p := verifTry(func() { _, err = e.Eval(context.Background(), EmptyScope) })
	verifC10Known(op.name, ka, -1)
	verifAssert("no-crash", !p)
	if p {
		return
	}
	if err != nil {
		verifCover("error")
	} else {
		verifCover("value")
	}
}

// verifStubExpr evaluates to a fixed value but is not a literal (defeats constant folding).
type verifStubExpr struct {
	ExprScanner
	v Value
}

func (e verifStubExpr) String() string { return "stub" }
func (e verifStubExpr) Eval(context.Context, Scope) (Value, error) { return e.v, nil }

var verifAttrNames = []string{"@", "@char", "@item", "@byte", "@value", "a"}
var verifLitKinds = []int{vkSmallNum, vkString, vkNone, vkTuple1, vkGenericSet}

// verif:bound VerifC10TupleLiteral two-attribute tuple literals over the names {@, @char, @item, @byte, @value, a} with values of 5 kinds each, both as folded literals and as evaluated expressions
// verif:cover VerifC10TupleLiteral sugar generic
func VerifC10TupleLiteral() {
	n1 := verifAttrNames[verifChoice(len(verifAttrNames))]
	n2 := verifAttrNames[verifChoice(len(verifAttrNames))]
	verifAssume(n1 != n2)
	k1 := verifLitKinds[verifChoice(len(verifLitKinds))]
	k2 := verifLitKinds[verifChoice(len(verifLitKinds))]
	v1, v2 := verifGenValue(k1), verifGenValue(k2)
	folded := verifChoice(2) == 0
	var e1, e2 Expr = v1, v2
	if !folded {
		e1, e2 = verifStubExpr{v: v1}, verifStubExpr{v: v2}
	}
	var res Value
	var err error
	// Known finding: a two-attribute tuple whose names spell a sugar tuple (@ with @char/@byte/
	// @item) but whose values are not numbers is built with unchecked type assertions.
	sugarName := func(n string) bool { return n == "@char" || n == "@byte" || n == "@item" || n == "@value" }
	illTyped := ((n1 == "@" && sugarName(n2)) || (n2 == "@" && sugarName(n1)))
	verifKnown("KF-C10-sugar-tuple-type-assertion", "no-crash", illTyped)
	p := verifTry(func() {
		a1, aerr := NewAttrExpr(*parser.NewScanner(""), n1, e1)
		if aerr != nil {
			err = aerr
			return
		}
		a2, aerr := NewAttrExpr(*parser.NewScanner(""), n2, e2)
		if aerr != nil {
			err = aerr
			return
		}
		res, err = NewTupleExpr(*parser.NewScanner(""), a1, a2).Eval(context.Background(), EmptyScope)
	})
	verifAssert("no-crash", !p)
	if p {
		return
	}
	if err == nil {
		if _, generic := res.(*GenericTuple); generic {
			verifCover("generic")
		} else {
			verifCover("sugar")
		}
	}
}
