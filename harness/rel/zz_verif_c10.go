package rel

import (
	"context"

	"github.com/arr-ai/wbnf/parser"
)

// C10 — every program ends in a value or an error, never a crash or a hang.
// The operator expressions that can be built without the parser are applied to every pair of
// kinds of the value universe (ill-typed operands included); a Go panic escaping Eval is a
// crash. Hangs are caught by the executor's step budget and deadlock detection.

var verifBinOps = []struct {
	name string
	mk   func(parser.Scanner, Expr, Expr) Expr
}{
	{"+", NewAddExpr}, {"-", NewSubExpr}, {"*", NewMulExpr}, {"/", NewDivExpr}, {"//", NewIdivExpr}, {"%", NewModExpr},
	{"-%", NewSubModExpr}, {"^", NewPowExpr}, {"with", NewWithExpr}, {"without", NewWithoutExpr}, {"call", NewCallExpr},
	{"|", NewUnionExpr}, {"&~", NewDiffExpr}, {"~~", NewSymmDiffExpr}, {"++", NewConcatExpr}, {"<&>", NewJoinExpr},
	{"<->", NewComposeExpr}, {"-&-", NewJoinCommonExpr}, {"---", NewJoinExistsExpr}, {"-->", NewRightResidueExpr},
	{"+>", NewAddArrowExpr},
}

// verifC10Known declares the crash sites already recorded as known findings for this operator
// and operand kinds.
func verifC10Known(op string, ka, kb int) {
	isSeq := func(k int) bool { return k == vkString || k == vkBytes || k == vkArray }
	// several values at one index: Array.withItem "superimposed array items not supported yet"
	verifKnown("KF-C10-array-superimposed", "no-crash", ka == vkArray && (kb == vkArray || kb == vkItemTuple) && (op == "|" || op == "~~" || op == "with" || op == "++"))
	_ = isSeq
}

// verif:bound VerifC10BinaryOperators 21 binary operator expressions x 18x18 operand kinds of the value universe (numbers: integers in [-2,2] or any non-NaN float; sequences L<=2; sets <=2 members)
// verif:cover VerifC10BinaryOperators value error
func VerifC10BinaryOperators() {
	verifConcreteNumbers = true
	defer func() { verifConcreteNumbers = false }()
	op := verifBinOps[verifChoice(len(verifBinOps))]
	ka := verifChoice(vkCount)
	kb := verifChoice(vkCount)
	a := verifGenValue(ka)
	b := verifGenValue(kb)
	e := op.mk(*parser.NewScanner(""), a, b)
	var err error
	p := verifTry(func() { _, err = e.Eval(context.Background(), EmptyScope) })
	verifC10Known(op.name, ka, kb)
	verifAssert("no-crash", !p)
	if p {
		return
	}
	if err != nil {
		verifCover("error")
	} else {
		verifCover("value")
	}
}

var verifUnOps = []struct {
	name string
	mk   func(parser.Scanner, Expr) Expr
}{
	{"+", NewPosExpr}, {"-", NewNegExpr}, {"^", NewPowerSetExpr}, {"!", NewNotExpr}, {"count", NewCountExpr}, {"single", NewSingleExpr},
}

// verif:bound VerifC10UnaryOperators 6 unary operator expressions x 18 operand kinds
// verif:cover VerifC10UnaryOperators value error
func VerifC10UnaryOperators() {
	verifConcreteNumbers = true
	defer func() { verifConcreteNumbers = false }()
	op := verifUnOps[verifChoice(len(verifUnOps))]
	ka := verifChoice(vkCount)
	a := verifGenValue(ka)
	e := op.mk(*parser.NewScanner(""), a)
	var err error
	p := verifTry(func() { _, err = e.Eval(context.Background(), EmptyScope) })
	verifAssert("no-crash", !p)
	if p {
		return
	}
	if err != nil {
		verifCover("error")
	} else {
		verifCover("value")
	}
}

// verifStubExpr evaluates to a fixed value but is not a literal (defeats constant folding).
type verifStubExpr struct {
	ExprScanner
	v Value
}

func (e verifStubExpr) String() string { return "stub" }
func (e verifStubExpr) Eval(context.Context, Scope) (Value, error) { return e.v, nil }

var verifAttrNames = []string{"@", "@char", "@item", "@byte", "@value", "a"}
var verifLitKinds = []int{vkSmallNum, vkString, vkNone, vkTuple1, vkGenericSet}

// verif:bound VerifC10TupleLiteral two-attribute tuple literals over the names {@, @char, @item, @byte, @value, a} with values of 5 kinds each, both as folded literals and as evaluated expressions
// verif:cover VerifC10TupleLiteral sugar generic
func VerifC10TupleLiteral() {
	n1 := verifAttrNames[verifChoice(len(verifAttrNames))]
	n2 := verifAttrNames[verifChoice(len(verifAttrNames))]
	verifAssume(n1 != n2)
	k1 := verifLitKinds[verifChoice(len(verifLitKinds))]
	k2 := verifLitKinds[verifChoice(len(verifLitKinds))]
	v1, v2 := verifGenValue(k1), verifGenValue(k2)
	folded := verifChoice(2) == 0
	var e1, e2 Expr = v1, v2
	if !folded {
		e1, e2 = verifStubExpr{v: v1}, verifStubExpr{v: v2}
	}
	var res Value
	var err error
	// Known finding: a two-attribute tuple whose names spell a sugar tuple (@ with @char/@byte/
	// @item) but whose values are not numbers is built with unchecked type assertions.
	sugarName := func(n string) bool { return n == "@char" || n == "@byte" || n == "@item" || n == "@value" }
	illTyped := ((n1 == "@" && sugarName(n2)) || (n2 == "@" && sugarName(n1)))
	verifKnown("KF-C10-sugar-tuple-type-assertion", "no-crash", illTyped)
	p := verifTry(func() {
		a1, aerr := NewAttrExpr(*parser.NewScanner(""), n1, e1)
		if aerr != nil {
			err = aerr
			return
		}
		a2, aerr := NewAttrExpr(*parser.NewScanner(""), n2, e2)
		if aerr != nil {
			err = aerr
			return
		}
		res, err = NewTupleExpr(*parser.NewScanner(""), a1, a2).Eval(context.Background(), EmptyScope)
	})
	verifAssert("no-crash", !p)
	if p {
		return
	}
	if err == nil {
		if _, generic := res.(*GenericTuple); generic {
			verifCover("generic")
		} else {
			verifCover("sugar")
		}
	}
}
