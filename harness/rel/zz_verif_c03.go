package rel

// C03 — values are immutable: deriving new values never changes existing ones.

func verifNondetChar() rune {
	r := verifNondetRune()
	verifAssume(r >= 0)
	verifAssume(r <= 0x10FFFF)
	return r
}

func verifBaseString(maxLen int) Set {
	n := verifChoice(maxLen + 1)
	base := make([]rune, n)
	for i := range base {
		base[i] = verifNondetChar()
	}
	o := verifNondetIntIn(-2, 2)
	return NewOffsetString(base, o)
}

func verifStrOp(p Set) Set {
	at := verifNondetIntIn(-4, 6)
	ch := verifNondetChar()
	switch verifChoice(2) {
	case 0:
		return p.With(NewStringCharTuple(at, ch))
	default:
		return p.Without(NewStringCharTuple(at, ch))
	}
}

// VerifC03StringBranching: a parent string (possibly produced by one earlier real operation, so
// that spare capacity arises the way it does in production) is extended twice; neither the
// parent nor the first derivative may change.
func VerifC03StringBranching() {
	p := verifBaseString(3)
	if verifChoice(2) == 1 {
		p = verifStrOp(p)
	}
	snapP, _ := verifDenChars(p)
	r1 := verifStrOp(p)
	snapR1, _ := verifDenChars(r1)
	r2 := verifStrOp(p)
	_ = r2
	nowP, _ := verifDenChars(p)
	nowR1, _ := verifDenChars(r1)
	verifAssert("parent-unchanged", verifDenEq(nowP, snapP))
	verifAssert("sibling-unchanged", verifDenEq(nowR1, snapR1))
	if verifInPlaceAppends() > 0 {
		verifCover("append-reused-capacity")
	}
}

func verifBaseBytes(maxLen int) Set {
	n := verifChoice(maxLen + 1)
	base := make([]byte, n)
	for i := range base {
		base[i] = verifNondetByte()
	}
	o := verifNondetIntIn(-2, 2)
	return NewOffsetBytes(base, o)
}

func verifBytesOp(p Set) Set {
	at := verifNondetIntIn(-4, 6)
	b := verifNondetByte()
	switch verifChoice(2) {
	case 0:
		return p.With(NewBytesByteTuple(at, b))
	default:
		return p.Without(NewBytesByteTuple(at, b))
	}
}

// VerifC03BytesBranching: as VerifC03StringBranching, for byte arrays.
func VerifC03BytesBranching() {
	p := verifBaseBytes(3)
	if verifChoice(2) == 1 {
		p = verifBytesOp(p)
	}
	snapP, _ := verifDenBytes(p)
	r1 := verifBytesOp(p)
	snapR1, _ := verifDenBytes(r1)
	r2 := verifBytesOp(p)
	_ = r2
	nowP, _ := verifDenBytes(p)
	nowR1, _ := verifDenBytes(r1)
	verifAssert("parent-unchanged", verifDenEq(nowP, snapP))
	verifAssert("sibling-unchanged", verifDenEq(nowR1, snapR1))
	if verifInPlaceAppends() > 0 {
		verifCover("append-reused-capacity")
	}
}
