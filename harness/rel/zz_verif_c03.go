package rel

import (
	"context"

	"github.com/arr-ai/wbnf/parser"
)

// C03 — values are immutable: deriving new values never changes existing ones.

func verifNondetChar() rune {
	r := verifNondetRune()
	verifAssume(r >= 0)
	verifAssume(r <= 0x10FFFF)
	return r
}

func verifBaseString(maxLen int) Set {
	n := verifChoice(maxLen + 1)
	base := make([]rune, n)
	for i := range base {
		base[i] = verifNondetChar()
	}
	o := verifNondetIntIn(-2, 2)
	return NewOffsetString(base, o)
}

func verifStrOp(p Set) Set {
	at := verifNondetIntIn(-4, 6)
	ch := verifNondetChar()
	switch verifChoice(2) {
	case 0:
		return p.With(NewStringCharTuple(at, ch))
	default:
		return p.Without(NewStringCharTuple(at, ch))
	}
}

// VerifC03StringBranching: a parent string (possibly produced by one earlier real operation, so
// that spare capacity arises the way it does in production) is extended twice; neither the
// parent nor the first derivative may change.
func VerifC03StringBranching() {
	p := verifBaseString(verifWiden(3, 4))
	if verifChoice(2) == 1 {
		p = verifStrOp(p)
	}
	snapP, _ := verifDenChars(p)
	r1 := verifStrOp(p)
	snapR1, _ := verifDenChars(r1)
	r2 := verifStrOp(p)
	_ = r2
	nowP, _ := verifDenChars(p)
	nowR1, _ := verifDenChars(r1)
	verifAssert("parent-unchanged", verifDenEq(nowP, snapP))
	verifAssert("sibling-unchanged", verifDenEq(nowR1, snapR1))
	if verifInPlaceAppends() > 0 {
		verifCover("append-reused-capacity")
	}
}

func verifBaseBytes(maxLen int) Set {
	n := verifChoice(maxLen + 1)
	base := make([]byte, n)
	for i := range base {
		base[i] = verifNondetByte()
	}
	o := verifNondetIntIn(-2, 2)
	return NewOffsetBytes(base, o)
}

func verifBytesOp(p Set) Set {
	at := verifNondetIntIn(-4, 6)
	b := verifNondetByte()
	switch verifChoice(2) {
	case 0:
		return p.With(NewBytesByteTuple(at, b))
	default:
		return p.Without(NewBytesByteTuple(at, b))
	}
}

// VerifC03BytesBranching: as VerifC03StringBranching, for byte arrays.
func VerifC03BytesBranching() {
	p := verifBaseBytes(verifWiden(3, 4))
	if verifChoice(2) == 1 {
		p = verifBytesOp(p)
	}
	snapP, _ := verifDenBytes(p)
	r1 := verifBytesOp(p)
	snapR1, _ := verifDenBytes(r1)
	r2 := verifBytesOp(p)
	_ = r2
	nowP, _ := verifDenBytes(p)
	nowR1, _ := verifDenBytes(r1)
	verifAssert("parent-unchanged", verifDenEq(nowP, snapP))
	verifAssert("sibling-unchanged", verifDenEq(nowR1, snapR1))
	if verifInPlaceAppends() > 0 {
		verifCover("append-reused-capacity")
	}
}

// verifRelSnapshot lists a relation's rows as name -> value maps (attribute names are concrete).
func verifRelSnapshot(s Set) []map[string]int {
	var out []map[string]int
	for e := s.Enumerator(); e.MoveNext(); {
		t := e.Current().(Tuple)
		row := map[string]int{}
		for a := t.Enumerator(); a.MoveNext(); {
			name, v := a.Current()
			row[name] = int(v.(Number))
		}
		out = append(out, row)
	}
	return out
}

func verifSameSnapshot(x, y []map[string]int) bool {
	if len(x) != len(y) {
		return false
	}
	ok := true
	for i := range x {
		if len(x[i]) != len(y[i]) {
			return false
		}
		for k, v := range x[i] {
			w, has := y[i][k]
			if !has {
				return false
			}
			ok = verifAnd(ok, v == w)
		}
	}
	return ok
}

// verif:bound VerifC03JoinBranching j = A<&>B (3 attributes, 1 row), then j<&>C and j<&>D from the same parent with a new attribute (same or different name), cells symbolic integers in [0,3]
// verif:cover VerifC03JoinBranching both-joined
func VerifC03JoinBranching() {
	ctx := context.Background()
	mk := func(heading []string, vals []int) Set {
		attrs := make([]Attr, len(heading))
		for i, h := range heading {
			attrs[i] = NewAttr(h, NewNumber(float64(vals[i])))
		}
		return MustNewSet(NewTuple(attrs...))
	}
	a, b, c := verifNondetIntIn(0, 3), verifNondetIntIn(0, 3), verifNondetIntIn(0, 3)
	d1, d2 := verifNondetIntIn(0, 3), verifNondetIntIn(0, 3)
	A := mk([]string{"a", "b"}, []int{a, b})
	B := mk([]string{"b", "c"}, []int{b, c})
	jv, err := NewJoinExpr(*parser.NewScanner(""), A, B).Eval(ctx, EmptyScope)
	verifAssert("join-ok", err == nil)
	if err != nil {
		return
	}
	j := jv.(Set)
	snapJ := verifRelSnapshot(j)
	second := "d"
	if verifChoice(2) == 1 {
		second = "e"
	}
	C := mk([]string{"a", "d"}, []int{a, d1})
	D := mk([]string{"a", second}, []int{a, d2})
	j1v, err := NewJoinExpr(*parser.NewScanner(""), j, C).Eval(ctx, EmptyScope)
	verifAssert("join1-ok", err == nil)
	if err != nil {
		return
	}
	snapJ1 := verifRelSnapshot(j1v.(Set))
	// further observers of j1: membership and equality against an independently built value
	row1 := NewTuple(NewAttr("a", NewNumber(float64(a))), NewAttr("b", NewNumber(float64(b))),
		NewAttr("c", NewNumber(float64(c))), NewAttr("d", NewNumber(float64(d1))))
	fresh := MustNewSet(row1)
	hasBefore := j1v.(Set).Has(row1)
	eqBefore := fresh.Equal(j1v)
	j2v, err := NewJoinExpr(*parser.NewScanner(""), j, D).Eval(ctx, EmptyScope)
	verifAssert("join2-ok", err == nil)
	if err != nil {
		return
	}
	if j1v.(Set).Count() == 1 && j2v.(Set).Count() == 1 {
		verifCover("both-joined")
	}
	var nowJ, nowJ1 []map[string]int
	p := verifTry(func() {
		nowJ = verifRelSnapshot(j)
		nowJ1 = verifRelSnapshot(j1v.(Set))
	})
	verifAssert("values-still-readable", !p)
	if p {
		return
	}
	verifAssert("parent-unchanged", verifSameSnapshot(snapJ, nowJ))
	verifAssert("sibling-unchanged", verifSameSnapshot(snapJ1, nowJ1))
	var hasAfter, eqAfter bool
	p = verifTry(func() {
		hasAfter = j1v.(Set).Has(row1)
		eqAfter = fresh.Equal(j1v)
	})
	verifAssert("sibling-still-usable", !p)
	if p {
		return
	}
	verifAssert("sibling-membership-unchanged", hasBefore == hasAfter)
	verifAssert("sibling-equality-unchanged", eqBefore == eqAfter)
}
