package rel

import (
	"github.com/arr-ai/frozen"
)

// C01 (continued): the Dict kernel - Has / Count / With / Without / Where / enumeration against
// the denotation read from the raw map (a key may carry several values: `multipleValues`).

// verifDenDictRaw reads the (key, value) pairs of a dictionary from its raw map; members of any
// other representation are read through the enumerator. `other` counts members that are not
// number-to-number entries.
func verifDenDictRaw(s Set) (d []verifPair, other int) {
	add := func(k, v Value) {
		kn, ok1 := k.(Number)
		vn, ok2 := v.(Number)
		if !ok1 || !ok2 {
			other++
			return
		}
		d = append(d, verifPair{at: int(kn), v: int(vn), ok: true})
	}
	if dict, is := s.(Dict); is {
		for i := dict.m.Range(); i.Next(); {
			switch v := i.Value().(type) {
			case multipleValues:
				for j := frozen.Set[Value](v).Range(); j.Next(); {
					add(i.Key(), j.Value())
				}
			case Value:
				add(i.Key(), v)
			default:
				other++
			}
		}
		return d, other
	}
	for e := s.Enumerator(); e.MoveNext(); {
		if t, is := e.Current().(DictEntryTuple); is {
			add(t.at, t.value)
		} else {
			other++
		}
	}
	return d, other
}

func verifDictEntry(k, v int) DictEntryTuple {
	return NewDictEntryTuple(NewNumber(float64(k)), NewNumber(float64(v)))
}

// verif:bound VerifC01DictKernel dictionaries of 1..3 entries (keys in [0,1], values in [0,2], so keys repeat and a key may carry up to three values), <=1 prior with/without of an entry, probe entry (key in [0,2], value in [0,2]); where-predicate an uninterpreted function of (key, value)
// verif:cover VerifC01DictKernel has-true has-false with without where-some multi single
func VerifC01DictKernel() {
	n := 1 + verifChoice(3)
	es := make([]DictEntryTuple, n)
	for i := range es {
		es[i] = verifDictEntry(verifNondetIntIn(0, 1), verifNondetIntIn(0, 2))
	}
	p := MustNewDict(true, es...)
	switch verifChoice(3) {
	case 1:
		p = p.With(verifDictEntry(verifNondetIntIn(0, 1), verifNondetIntIn(0, 2)))
	case 2:
		p = p.Without(verifDictEntry(verifNondetIntIn(0, 1), verifNondetIntIn(0, 2)))
	}
	d, other := verifDenDictRaw(p)
	verifAssert("well-formed", other == 0)
	if dict, is := p.(Dict); is {
		multi := false
		for i := dict.m.Range(); i.Next(); {
			if _, is := i.Value().(multipleValues); is {
				multi = true
			}
		}
		if multi {
			verifCover("multi")
		} else {
			verifCover("single")
		}
	}
	k := verifNondetIntIn(0, 2)
	v := verifNondetIntIn(0, 2)
	t := verifDictEntry(k, v)
	switch verifChoice(4) {
	case 0:
		has := p.Has(t)
		if has {
			verifCover("has-true")
		} else {
			verifCover("has-false")
		}
		verifAssert("dict-has", has == verifDenHas(d, k, v))
		// the same member offered as a generic tuple is the same member
		verifAssert("dict-has-generic-tuple",
			p.Has(NewTuple(NewAttr("@", NewNumber(float64(k))), NewAttr(DictValueAttr, NewNumber(float64(v))))) == has)
		verifAssert("dict-count", p.Count() == verifDenCount(d))
		seen := 0
		var members []Value
		for e := p.Enumerator(); e.MoveNext(); {
			it, isEntry := e.Current().(DictEntryTuple)
			verifAssert("dict-enumerates-entries", isEntry)
			if isEntry {
				kn, ok1 := it.at.(Number)
				vn, ok2 := it.value.(Number)
				verifAssert("dict-enumerated-member", ok1 && ok2 && verifDenHas(d, int(kn), int(vn)))
				verifAssert("dict-enumerated-member-has", p.Has(it))
			}
			for _, m := range members {
				verifAssert("dict-no-duplicate", !m.Equal(e.Current()))
			}
			members = append(members, e.Current())
			seen++
		}
		verifAssert("dict-enumerates-count", seen == verifDenCount(d))
	case 1:
		verifCover("with")
		r := p.With(t)
		dr, o2 := verifDenDictRaw(r)
		verifAssert("dict-with-members", verifDenEq(dr, verifDenWith(d, k, v)))
		verifAssert("dict-with-no-foreign", o2 == 0)
		verifAssert("dict-with-count", r.Count() == verifDenCount(verifDenWith(d, k, v)))
		verifAssert("dict-with-has", r.Has(t))
		if verifDenHas(d, k, v) {
			verifAssert("dict-with-present-member-is-identity", r.Equal(p) && p.Equal(r))
		}
	case 2:
		verifCover("without")
		r := p.Without(t)
		dr, o2 := verifDenDictRaw(r)
		verifAssert("dict-without-members", verifDenEq(dr, verifDenWithout(d, k, v)))
		verifAssert("dict-without-no-foreign", o2 == 0)
		verifAssert("dict-without-count", r.Count() == verifDenCount(verifDenWithout(d, k, v)))
		verifAssert("dict-without-has", !r.Has(t))
		verifAssert("dict-without-empty-iff-none", r.IsTrue() == (verifDenCount(verifDenWithout(d, k, v)) > 0))
	case 3:
		r, err := p.Where(func(m Value) (bool, error) {
			e := m.(DictEntryTuple)
			return verifUF2("keep", int(e.at.(Number)), int(e.value.(Number)))&1 == 1, nil
		})
		verifAssert("dict-where-no-error", err == nil)
		if err != nil {
			return
		}
		want := make([]verifPair, len(d))
		for i, q := range d {
			want[i] = verifPair{at: q.at, v: q.v, ok: verifAnd(q.ok, verifUF2("keep", q.at, q.v)&1 == 1)}
		}
		dr, o2 := verifDenDictRaw(r)
		if r.IsTrue() {
			verifCover("where-some")
		}
		verifAssert("dict-where-members", verifDenEq(dr, want))
		verifAssert("dict-where-no-foreign", o2 == 0)
		verifAssert("dict-where-count", r.Count() == verifDenCount(want))
	}
}

// verif:bound VerifC01DictVsGeneric a dictionary of 1..3 entries (keys in [0,1], values in [0,2]) against the plain set of the same entry tuples built without the dictionary representation (entries united with a non-entry member that is then removed): equal both ways, same count, subset both ways
// verif:cover VerifC01DictVsGeneric multi single
func VerifC01DictVsGeneric() {
	n := 1 + verifChoice(3)
	es := make([]DictEntryTuple, n)
	vals := make([]Value, n)
	for i := range es {
		es[i] = verifDictEntry(verifNondetIntIn(0, 1), verifNondetIntIn(0, 2))
		vals[i] = es[i]
	}
	p := MustNewDict(true, es...)
	d, _ := verifDenDictRaw(p)
	if verifConcretize(verifDenCount(d), 1, 3) > p.(Dict).m.Count() {
		verifCover("multi")
	} else {
		verifCover("single")
	}
	// the same members reached through a union of kinds: add a number, add the entries, drop the number
	var g Set = MustNewSet(NewNumber(99))
	for _, e := range vals {
		g = g.With(e)
	}
	g = g.Without(NewNumber(99))
	verifAssert("dict-vs-union-count", g.Count() == p.Count())
	verifAssert("dict-vs-union-equal", p.Equal(g) && g.Equal(p))
	for _, e := range vals {
		verifAssert("dict-vs-union-has", g.Has(e) && p.Has(e))
	}
	u := Union(p, g)
	verifAssert("dict-union-self-count", u.Count() == p.Count())
	i := Intersect(p, g)
	verifAssert("dict-intersect-self-count", i.Count() == p.Count())
	df := Difference(p, g)
	verifAssert("dict-difference-self-empty", !df.IsTrue())
}
