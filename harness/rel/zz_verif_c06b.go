package rel

// C06 (continued): the printed order of set members follows <. Printing asks the set for its
// OrderedValues(); for a set of mixed kinds (a UnionSet of buckets) that sequence must be
// non-decreasing under Less, like the sequence orderby produces.

type verifOrdered interface {
	OrderedValues() ValueEnumerator
}

// verif:bound VerifC06PrintedOrder sets of 2..3 members drawn from 7 kinds (small number, @neg wrapper, char tuple, plain set of numbers, {}, string, dictionary; cells symbolic as in VerifC06Trichotomy): the OrderedValues() sequence used for printing has Count() members and is non-decreasing under <
// verif:cover VerifC06PrintedOrder mixed-kinds one-kind
func VerifC06PrintedOrder() {
	kinds := []int{vkSmallNum, vkNegTuple, vkCharTuple, vkGenericSet, vkNone, vkString, vkDict}
	n := 2 + verifChoice(2)
	vs := make([]Value, n)
	ks := make([]int, n)
	mixed := false
	for i := range vs {
		ks[i] = kinds[verifChoice(len(kinds))]
		vs[i] = verifGenValue(ks[i])
		if ks[i] != ks[0] {
			mixed = true
		}
	}
	if mixed {
		verifCover("mixed-kinds")
	} else {
		verifCover("one-kind")
	}
	s := MustNewSet(vs...)
	o, is := s.(verifOrdered)
	if !is {
		return // specialised sets (strings, dictionaries, ...) print through their own syntax
	}
	var prev Value
	seen := 0
	for e := o.OrderedValues(); e.MoveNext(); {
		cur := e.Current()
		if prev != nil {
			verifAssert("printed-order-follows-less", !cur.Less(prev))
		}
		prev = cur
		seen++
	}
	verifAssert("printed-order-lists-every-member", seen == s.Count())
}
