package rel

// The value universe used by the order/equality harnesses: every value is built only through
// the package's own constructors, so each generated state is reachable by a real program.

const (
	vkFloat = iota // arbitrary non-NaN float64
	vkSmallNum     // integer in [-2,2]
	vkCharTuple
	vkByteTuple
	vkItemTuple
	vkDictEntry
	vkEmptyTuple
	vkTuple1
	vkTuple2
	vkNegTuple
	vkString
	vkBytes
	vkArray
	vkNone
	vkTrue
	vkGenericSet
	vkDict
	vkRelation
	vkCount
)

var verifKindNames = [...]string{"float", "smallnum", "chartuple", "bytetuple", "itemtuple", "dictentry", "emptytuple",
	"tuple1", "tuple2", "negtuple", "string", "bytes", "array", "none", "true", "genericset", "dict", "relation"}

// verifConcreteNumbers switches the universe to concrete representative numbers (used by the
// crash matrix of C10, where math.Pow/math.Mod need concrete operands).
var verifConcreteNumbers bool

func verifSmallNum() Number {
	if verifConcreteNumbers {
		return NewNumber(float64(verifChoice(3) - 1))
	}
	return NewNumber(float64(verifNondetIntIn(-2, 2)))
}

func verifSmallChar() rune {
	return rune('a' + verifNondetIntIn(0, 2))
}

func verifGenValue(k int) Value {
	switch k {
	case vkFloat:
		if verifConcreteNumbers {
			return NewNumber([]float64{0.5, -1e300, 1e19, 1.0 / 3}[verifChoice(4)])
		}
		f := verifNondetFloat64()
		verifAssume(!verifIsNaN(f))
		return NewNumber(f)
	case vkSmallNum:
		return verifSmallNum()
	case vkCharTuple:
		return NewStringCharTuple(verifNondetIntIn(-1, 1), verifSmallChar())
	case vkByteTuple:
		return NewBytesByteTuple(verifNondetIntIn(-1, 1), byte(verifSmallChar()))
	case vkItemTuple:
		return NewArrayItemTuple(verifNondetIntIn(-1, 1), verifSmallNum())
	case vkDictEntry:
		return NewDictEntryTuple(verifSmallNum(), verifSmallNum())
	case vkEmptyTuple:
		return EmptyTuple
	case vkTuple1:
		return NewTuple(NewAttr("a", verifSmallNum()))
	case vkTuple2:
		return NewTuple(NewAttr("a", verifSmallNum()), NewAttr("b", verifSmallNum()))
	case vkNegTuple:
		return NewTuple(NewAttr(negateTag, verifSmallNum()))
	case vkString:
		n := 1 + verifChoice(2)
		rs := make([]rune, n)
		for i := range rs {
			rs[i] = verifSmallChar()
		}
		return NewOffsetString(rs, verifNondetIntIn(-1, 1))
	case vkBytes:
		n := 1 + verifChoice(2)
		bs := make([]byte, n)
		for i := range bs {
			bs[i] = byte(verifSmallChar())
		}
		return NewOffsetBytes(bs, verifNondetIntIn(-1, 1))
	case vkArray:
		n := 1 + verifChoice(2)
		vs := make([]Value, n)
		for i := range vs {
			vs[i] = verifSmallNum()
		}
		return NewOffsetArray(verifNondetIntIn(-1, 1), vs...)
	case vkNone:
		return None
	case vkTrue:
		return True
	case vkGenericSet:
		return MustNewSet(verifSmallNum(), verifSmallNum())
	case vkDict:
		return MustNewDict(false, NewDictEntryTuple(verifSmallNum(), verifSmallNum()))
	case vkRelation:
		return MustNewSet(NewTuple(NewAttr("a", verifSmallNum())), NewTuple(NewAttr("a", verifSmallNum())))
	}
	panic("verifGenValue: bad kind")
}
