package rel

import (
	"context"

	"github.com/arr-ai/wbnf/parser"
)

// C01 (continued): relations with the same heading but different column layouts. A literal
// relation stores its columns sorted; a join keeps the operands' order, so {(b: y)} <&> {(a: x)}
// denotes the same relation as {(a: x, b: y)} with the columns swapped.

func verifRelABRow(x, y int) Value {
	return NewTuple(NewAttr("a", NewNumber(float64(x))), NewAttr("b", NewNumber(float64(y))))
}

// verifRelAB builds a relation over {a,b} with rows (x1,y1) [and (x2,y2)] in the given layout:
// 0 literal, 1 joined b-first, 2 joined a-first.
func verifRelAB(layout, rows int, x1, y1, x2, y2 int) Set {
	col := func(name string, v1, v2 int) Set {
		vs := []Value{NewTuple(NewAttr(name, NewNumber(float64(v1))))}
		if rows == 2 {
			vs = append(vs, NewTuple(NewAttr(name, NewNumber(float64(v2)))))
		}
		return MustNewSet(vs...)
	}
	lit := []Value{verifRelABRow(x1, y1)}
	if rows == 2 {
		lit = append(lit, verifRelABRow(x2, y2))
	}
	if layout == 0 {
		return MustNewSet(lit...)
	}
	// a join of two single-column relations is their product: filter it back to the wanted rows
	A, B := col("a", x1, x2), col("b", y1, y2)
	l, r := B, A
	if layout == 2 {
		l, r = A, B
	}
	v, err := NewJoinExpr(*parser.NewScanner(""), l, r).Eval(context.Background(), EmptyScope)
	verifAssume(err == nil)
	want := MustNewSet(lit...)
	j := v.(Set)
	res, err := j.Where(func(x Value) (bool, error) { return want.Has(x), nil })
	verifAssume(err == nil)
	return res
}

// verif:bound VerifC01RelationLayouts |, &, &~, ~~, with, without and Has on two relations over {a,b} (1..2 rows, cells in [0,1]) in every pair of column layouts (literal = sorted columns, joined b-first, joined a-first); probes: every member of either operand
// verif:cover VerifC01RelationLayouts swapped-layouts
func VerifC01RelationLayouts() {
	la, lb := verifChoice(3), verifChoice(3)
	cell := func() int { return verifNondetIntIn(0, 1) }
	a := verifRelAB(la, 1+verifChoice(2), cell(), cell(), cell(), cell())
	b := verifRelAB(lb, 1+verifChoice(2), cell(), cell(), cell(), cell())
	if la != lb {
		verifCover("swapped-layouts")
	}
	ma, mb := verifMembers(a), verifMembers(b)
	op := verifChoice(6)
	var r Set
	probeB := mb[0]
	p := verifTry(func() {
		switch op {
		case 0:
			r = Union(a, b)
		case 1:
			r = Intersect(a, b)
		case 2:
			r = Difference(a, b)
		case 3:
			r = SymmetricDifference(a, b)
		case 4:
			r = a.With(probeB)
		default:
			r = a.Without(probeB)
		}
	})
	verifAssert("layout-no-panic", !p)
	if p {
		return
	}
	mr := verifMembers(r)
	probes := append(append([]Value{}, ma...), mb...)
	for _, x := range probes {
		inA, inB := verifIn(ma, x), verifIn(mb, x)
		var want bool
		switch op {
		case 0:
			want = inA || inB
		case 1:
			want = inA && inB
		case 2:
			want = inA && !inB
		case 3:
			want = inA != inB
		case 4:
			want = inA || x.Equal(probeB)
		default:
			want = inA && !x.Equal(probeB)
		}
		verifAssert("layout-has", r.Has(x) == want)
		verifAssert("layout-enumerates", verifIn(mr, x) == want)
		verifAssert("layout-operand-has", a.Has(x) == inA && b.Has(x) == inB)
	}
	for i, m := range mr {
		verifAssert("layout-no-foreign", verifIn(ma, m) || verifIn(mb, m))
		for _, n := range mr[:i] {
			verifAssert("layout-no-duplicate", !m.Equal(n))
		}
	}
	verifAssert("layout-count", r.Count() == len(mr))
}
