package rel

import (
	"context"

	"github.com/arr-ai/wbnf/parser"
)

// C04 (continued): joins whose left operand is not a Relation - an array (heading @, @item) or
// a dictionary (heading @, @value) - against a relation; these go through GenericJoin rather
// than the positional joins.

// verif:bound VerifC04MixedJoins all 8 join operators with an array or a dictionary of 2..3 members (values in {0,1}) on the left and a relation over one of the headings {@}, {@, x}, {x}, {@item} or {@value} with 1..2 rows (cells in {0,1}) on the right, against the relational definition
// verif:cover VerifC04MixedJoins nonempty empty larger-left
func VerifC04MixedJoins() {
	op := verifJoinOps[verifChoice(len(verifJoinOps))]
	dict := verifChoice(2) == 1
	n := 2 + verifChoice(2)
	valueName := "@item"
	if dict {
		valueName = "@value"
	}
	lh := []string{"@", valueName}
	ra := make([]verifRow, n)
	items := make([]Value, n)
	entries := make([]DictEntryTuple, n)
	for i := range ra {
		v := verifNondetIntIn(0, 1)
		ra[i] = verifRow{"@": i, valueName: v}
		items[i] = NewNumber(float64(v))
		entries[i] = NewDictEntryTuple(NewNumber(float64(i)), NewNumber(float64(v)))
	}
	var A Set = NewArray(items...)
	if dict {
		A = MustNewDict(false, entries...)
	}
	rhs := [][]string{{"@"}, {"@", "x"}, {"x"}, {valueName}}
	rh := rhs[verifChoice(len(rhs))]
	B, rb := verifRelation(rh, 1+verifChoice(2))
	if len(ra) > len(rb) {
		verifCover("larger-left")
	}
	var common, leftOnly, rightOnly []string
	for _, name := range lh {
		if verifContains(rh, name) {
			common = append(common, name)
		} else {
			leftOnly = append(leftOnly, name)
		}
	}
	for _, name := range rh {
		if !verifContains(lh, name) {
			rightOnly = append(rightOnly, name)
		}
	}
	var outNames []string
	switch op.name {
	case "<&>":
		outNames = append(append(append(outNames, leftOnly...), common...), rightOnly...)
	case "<->":
		outNames = append(append(outNames, leftOnly...), rightOnly...)
	case "-&-":
		outNames = common
	case "---":
		outNames = nil
	case "-&>":
		outNames = rh
	case "<&-":
		outNames = lh
	case "-->":
		outNames = rightOnly
	case "<--":
		outNames = leftOnly
	}
	var expected []Value
	for _, t := range ra {
		for _, u := range rb {
			agree := true
			for _, c := range common {
				if t[c] != u[c] {
					agree = false
				}
			}
			if !agree {
				continue
			}
			m := verifRow{}
			for k, v := range t {
				m[k] = v
			}
			for k, v := range u {
				m[k] = v
			}
			expected = append(expected, verifRowTuple(m, outNames))
		}
	}
	want := MustNewSet(expected...)
	e := op.mk(*parser.NewScanner(""), A, B)
	var res Value
	var err error
	p := verifTry(func() { res, err = e.Eval(context.Background(), EmptyScope) })
	verifAssert("mixed-join-no-panic", !p)
	if p {
		return
	}
	verifAssert("mixed-join-no-error", err == nil)
	if err != nil {
		return
	}
	got, isSet := res.(Set)
	verifAssert("mixed-join-is-set", isSet)
	if !isSet {
		return
	}
	if want.IsTrue() {
		verifCover("nonempty")
	} else {
		verifCover("empty")
	}
	verifAssert("mixed-join-count", got.Count() == want.Count())
	for _, x := range expected {
		verifAssert("mixed-join-member", got.Has(x))
	}
	verifAssert("mixed-join-equal", got.Equal(want) && want.Equal(got))
}
