package rel

// C01 — set algebra is exact for every mix of representations.
// H1: the sequence kernels (String, Bytes, Array): With/Without/Has/Count/Where against the
// denotation computed from raw fields.

// verifFellBack: the value left the sequence representation through the
// newGenericSetFromSet(...).With/Without fall-back (known finding KF-C01-seq-fallback: such a
// GenericSet/UnionSet keeps sequence tuples in the generic bucket, so later membership, count,
// with and without answers are wrong).
func verifFellBack(v Set) bool {
	switch v.(type) {
	case GenericSet, UnionSet:
		return true
	}
	return false
}

// verif:bound VerifC01StringKernel L<=3 (thorough: 4) chars (any non-negative rune), offset in [-2,2], <=1 prior operation, probe index in [-4,6]
// verif:cover VerifC01StringKernel has-true has-false with-append with-prepend with-generic without-first without-last without-middle where-some
func VerifC01StringKernel() {
	p := verifBaseString(verifWiden(3, 4))
	if verifChoice(2) == 1 {
		p = verifStrOp(p)
	}
	d, other := verifDenChars(p)
	verifAssert("well-formed", other == 0)
	at := verifNondetIntIn(-4, 6)
	ch := verifNondetChar()
	t := NewStringCharTuple(at, ch)
	verifKnown("KF-C01-seq-fallback", "*", verifFellBack(p))
	switch verifChoice(4) {
	case 0:
		has := p.Has(t)
		if has {
			verifCover("has-true")
		} else {
			verifCover("has-false")
		}
		verifAssert("has", has == verifDenHas(d, at, int(ch)))
		verifAssert("count", p.Count() == verifDenCount(d))
	case 1:
		r := p.With(t)
		switch r := r.(type) {
		case String:
			if s, ok := p.(String); ok {
				if r.offset < s.offset {
					verifCover("with-prepend")
				} else if len(r.s) > len(s.s) {
					verifCover("with-append")
				}
			}
		case GenericSet, UnionSet:
			verifCover("with-generic")
		}
		verifKnown("KF-C01-seq-fallback", "*", verifFellBack(r))
		dr, o2 := verifDenChars(r)
		verifAssert("with-members", verifDenEq(dr, verifDenWith(d, at, int(ch))))
		verifAssert("with-no-foreign", o2 == 0)
		verifAssert("with-count", r.Count() == verifDenCount(verifDenWith(d, at, int(ch))))
		verifAssert("with-has", r.Has(t))
	case 2:
		r := p.Without(t)
		if s, ok := p.(String); ok && s.Has(t) {
			switch at - s.offset {
			case 0:
				verifCover("without-first")
			case len(s.s) - 1:
				verifCover("without-last")
			default:
				verifCover("without-middle")
			}
		}
		dr, o2 := verifDenChars(r)
		verifAssert("without-members", verifDenEq(dr, verifDenWithout(d, at, int(ch))))
		verifAssert("without-no-foreign", o2 == 0)
		verifAssert("without-count", r.Count() == verifDenCount(verifDenWithout(d, at, int(ch))))
		verifAssert("without-has", !r.Has(t))
	case 3:
		// where with an arbitrary predicate on the index
		r, err := p.Where(func(v Value) (bool, error) {
			c := v.(StringCharTuple)
			return verifUF1("keep", c.at)&1 == 1, nil
		})
		verifAssert("where-no-error", err == nil)
		want := make([]verifPair, len(d))
		for i, e := range d {
			want[i] = verifPair{at: e.at, v: e.v, ok: verifAnd(e.ok, verifUF1("keep", e.at)&1 == 1)}
		}
		dr, o2 := verifDenChars(r)
		if r.IsTrue() && p.IsTrue() && r.Count() < p.Count() {
			verifCover("where-some")
		}
		verifAssert("where-members", verifDenEq(dr, want))
		verifAssert("where-no-foreign", o2 == 0)
		verifAssert("where-count", r.Count() == verifDenCount(want))
	}
}

// verif:bound VerifC01BytesKernel L<=3 (thorough: 4) bytes (any), offset in [-2,2], <=1 prior operation, probe index in [-4,6]
// verif:cover VerifC01BytesKernel has-true has-false with-generic without-hit
func VerifC01BytesKernel() {
	p := verifBaseBytes(verifWiden(3, 4))
	if verifChoice(2) == 1 {
		p = verifBytesOp(p)
	}
	d, other := verifDenBytes(p)
	verifAssert("well-formed", other == 0)
	at := verifNondetIntIn(-4, 6)
	b := verifNondetByte()
	t := NewBytesByteTuple(at, b)
	verifKnown("KF-C01-seq-fallback", "*", verifFellBack(p))
	switch verifChoice(4) {
	case 0:
		has := p.Has(t)
		if has {
			verifCover("has-true")
		} else {
			verifCover("has-false")
		}
		verifAssert("has", has == verifDenHas(d, at, int(b)))
		verifAssert("count", p.Count() == verifDenCount(d))
	case 1:
		r := p.With(t)
		if verifFellBack(r) {
			verifCover("with-generic")
		}
		verifKnown("KF-C01-seq-fallback", "*", verifFellBack(r))
		dr, o2 := verifDenBytes(r)
		verifAssert("with-members", verifDenEq(dr, verifDenWith(d, at, int(b))))
		verifAssert("with-no-foreign", o2 == 0)
		verifAssert("with-count", r.Count() == verifDenCount(verifDenWith(d, at, int(b))))
		verifAssert("with-has", r.Has(t))
	case 2:
		if p.Has(t) {
			verifCover("without-hit")
		}
		r := p.Without(t)
		dr, o2 := verifDenBytes(r)
		verifAssert("without-members", verifDenEq(dr, verifDenWithout(d, at, int(b))))
		verifAssert("without-no-foreign", o2 == 0)
		verifAssert("without-count", r.Count() == verifDenCount(verifDenWithout(d, at, int(b))))
		verifAssert("without-has", !r.Has(t))
	case 3:
		r, err := p.Where(func(v Value) (bool, error) {
			c := v.(BytesByteTuple)
			return verifUF1("keep", c.at)&1 == 1, nil
		})
		verifAssert("where-no-error", err == nil)
		want := make([]verifPair, len(d))
		for i, e := range d {
			want[i] = verifPair{at: e.at, v: e.v, ok: verifAnd(e.ok, verifUF1("keep", e.at)&1 == 1)}
		}
		dr, o2 := verifDenBytes(r)
		// Known finding: Bytes has no representation for holes; a sparse result is zero-filled.
		verifKnown("KF-C01-bytes-sparse", "*", verifDenSparse(want))
		verifAssert("where-members", verifDenEq(dr, want))
		verifAssert("where-no-foreign", o2 == 0)
		verifAssert("where-count", r.Count() == verifDenCount(want))
	}
}
