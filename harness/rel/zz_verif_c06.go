package rel

// C06 — < is a strict total order consistent with =.

func verifB2I(b bool) int { return verifIte(b, 1, 0) }

// verif:bound VerifC06Trichotomy pairs over 18 kinds x 18 kinds; numbers: any non-NaN float64 at top level, integers in [-2,2] nested; sequences L<=2, offsets in [-1,1]; sets/dicts/relations <=2 members
// verif:cover VerifC06Trichotomy lt gt eq
func VerifC06Trichotomy() {
	ka := verifChoice(vkCount)
	kb := verifChoice(vkCount)
	a := verifGenValue(ka)
	b := verifGenValue(kb)
	var lt, gt, eq bool
	p := verifTry(func() {
		lt = a.Less(b)
		gt = b.Less(a)
		eq = a.Equal(b)
	})
	// Known finding: a single-attribute @neg tuple compared with a generic tuple of another
	// shape panics ("@neg kind not single-attr tuple" / "missing @neg attr").
	negMix := (ka == vkNegTuple) != (kb == vkNegTuple) &&
		(ka == vkEmptyTuple || ka == vkTuple1 || ka == vkTuple2 || ka == vkNegTuple) &&
		(kb == vkEmptyTuple || kb == vkTuple1 || kb == vkTuple2 || kb == vkNegTuple)
	verifKnown("KF-C06-neg-tuple-panic", "no-panic", negMix)
	verifAssert("no-panic", !p)
	if p {
		return
	}
	if lt {
		verifCover("lt")
	}
	if gt {
		verifCover("gt")
	}
	if eq {
		verifCover("eq")
	}
	verifAssert("exactly-one", verifB2I(lt)+verifB2I(gt)+verifB2I(eq) == 1)
}

// verif:bound VerifC06Transitive triples within the number, tuple and sequence families (kinds float..array), same universe as VerifC06Trichotomy
// verif:cover VerifC06Transitive chain
func VerifC06Transitive() {
	fam := verifChoice(3)
	var kinds []int
	switch fam {
	case 0:
		kinds = []int{vkFloat, vkSmallNum, vkNone, vkTrue}
	case 1:
		kinds = []int{vkCharTuple, vkItemTuple, vkDictEntry, vkTuple1, vkTuple2, vkEmptyTuple}
	default:
		kinds = []int{vkString, vkArray, vkGenericSet, vkDict, vkNone}
	}
	a := verifGenValue(kinds[verifChoice(len(kinds))])
	b := verifGenValue(kinds[verifChoice(len(kinds))])
	c := verifGenValue(kinds[verifChoice(len(kinds))])
	var ab, bc, ac bool
	p := verifTry(func() {
		ab = a.Less(b)
		bc = b.Less(c)
		ac = a.Less(c)
	})
	verifAssert("no-panic", !p)
	if p {
		return
	}
	if ab && bc {
		verifCover("chain")
	}
	verifAssert("transitive", verifOr(verifNot(verifAnd(ab, bc)), ac))
}
