package rel

// C06 — < is a strict total order consistent with =.

func verifB2I(b bool) int { return verifIte(b, 1, 0) }

// verif:bound VerifC06Trichotomy pairs over 18 kinds x 18 kinds; numbers: any non-NaN float64 at top level, integers in [-2,2] nested; sequences L<=2, offsets in [-1,1]; sets/dicts/relations <=2 members
// verif:cover VerifC06Trichotomy lt gt eq
func VerifC06Trichotomy() {
	ka := verifChoice(vkCount)
	kb := verifChoice(vkCount)
	a := verifGenValue(ka)
	b := verifGenValue(kb)
	var lt, gt, eq bool
	p := verifTry(func() {
		lt = a.Less(b)
		gt = b.Less(a)
		eq = a.Equal(b)
	})
	// Known finding: a single-attribute @neg tuple compared with a generic tuple of another
	// shape panics ("@neg kind not single-attr tuple" / "missing @neg attr").
	negMix := (ka == vkNegTuple) != (kb == vkNegTuple) &&
		(ka == vkEmptyTuple || ka == vkTuple1 || ka == vkTuple2 || ka == vkNegTuple) &&
		(kb == vkEmptyTuple || kb == vkTuple1 || kb == vkTuple2 || kb == vkNegTuple)
	verifKnown("KF-C06-neg-tuple-panic", "no-panic", negMix)
	verifAssert("no-panic", !p)
	if p {
		return
	}
	if lt {
		verifCover("lt")
	}
	if gt {
		verifCover("gt")
	}
	if eq {
		verifCover("eq")
	}
	verifAssert("exactly-one", verifB2I(lt)+verifB2I(gt)+verifB2I(eq) == 1)
}

// verif:bound VerifC06Transitive triples within the number, tuple and sequence families (kinds float..array), same universe as VerifC06Trichotomy
// verif:cover VerifC06Transitive chain
func VerifC06Transitive() {
	fam := verifChoice(3)
	var kinds []int
	switch fam {
	case 0:
		kinds = []int{vkFloat, vkSmallNum, vkNone, vkTrue}
	case 1:
		kinds = []int{vkCharTuple, vkItemTuple, vkDictEntry, vkTuple1, vkTuple2, vkEmptyTuple}
	default:
		kinds = []int{vkString, vkArray, vkGenericSet, vkDict, vkNone}
	}
	a := verifGenValue(kinds[verifChoice(len(kinds))])
	b := verifGenValue(kinds[verifChoice(len(kinds))])
	c := verifGenValue(kinds[verifChoice(len(kinds))])
	var ab, bc, ac bool
	p := verifTry(func() {
		ab = a.Less(b)
		bc = b.Less(c)
		ac = a.Less(c)
	})
	verifAssert("no-panic", !p)
	if p {
		return
	}
	if ab && bc {
		verifCover("chain")
	}
	verifAssert("transitive", verifOr(verifNot(verifAnd(ab, bc)), ac))
}

func verifRows(n int) (Set, []int) {
	ks := make([]int, n)
	ts := make([]Value, n)
	for i := range ts {
		ks[i] = verifNondetIntIn(0, 2)
		ts[i] = NewTuple(NewAttr("id", NewNumber(float64(i))), NewAttr("k", NewNumber(float64(ks[i]))))
	}
	return MustNewSet(ts...), ks
}

// verif:bound VerifC06Rank relations of 2..4 (thorough: 2..5) rows (id distinct, key k in [0,2], so ties below and above the minimum occur); rank by k
// verif:cover VerifC06Rank tie-above-min
func VerifC06Rank() {
	n := 2 + verifChoice(verifWiden(3, 4))
	s, ks := verifRows(n)
	res, err := Rank(s, func(t Tuple) (Tuple, error) {
		return NewTuple(NewAttr("r", t.MustGet("k"))), nil
	})
	verifAssert("rank-no-error", err == nil)
	if err != nil {
		return
	}
	verifAssert("rank-count", res.Count() == n)
	seen := 0
	for e := res.Enumerator(); e.MoveNext(); {
		t := e.Current().(Tuple)
		id := int(t.MustGet("id").(Number))
		k := int(t.MustGet("k").(Number))
		r := int(t.MustGet("r").(Number))
		smaller := 0
		for _, kk := range ks {
			smaller += verifIte(kk < k, 1, 0)
		}
		verifAssert("rank-is-number-of-strictly-smaller-keys", r == smaller)
		idc := verifConcretize(id, 0, 3)
		verifAssert("rank-key-kept", k == ks[idc])
		seen++
	}
	verifAssert("rank-all-rows", seen == n)
	// cover: two equal keys that are not the minimum
	if n >= 3 && ks[0] < ks[1] && ks[1] == ks[2] {
		verifCover("tie-above-min")
	}
}

// verif:bound VerifC06OrderBy relations of 2..4 (thorough: 2..5) rows as VerifC06Rank; ordered by k with the value order
// verif:cover VerifC06OrderBy sorted
func VerifC06OrderBy() {
	n := 2 + verifChoice(verifWiden(3, 4))
	s, ks := verifRows(n)
	out, err := OrderBy(s, func(v Value) (Value, error) { return v.(Tuple).MustGet("k"), nil }, ValueLess)
	verifAssert("orderby-no-error", err == nil)
	if err != nil {
		return
	}
	verifAssert("orderby-length", len(out) == n)
	if len(out) != n {
		return
	}
	present := make([]bool, n)
	prev := -1
	for _, v := range out {
		t := v.(Tuple)
		k := int(t.MustGet("k").(Number))
		id := verifConcretize(int(t.MustGet("id").(Number)), 0, 3)
		verifAssert("orderby-non-decreasing", prev <= k)
		verifAssert("orderby-row-intact", k == ks[id])
		verifAssert("orderby-no-duplicate", !present[id])
		present[id] = true
		prev = k
	}
	verifCover("sorted")
}
