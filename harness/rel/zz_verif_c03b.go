package rel

// C03 (continued): arrays. A parent array (a literal, possibly extended or shrunk by up to two
// earlier real operations so that spare capacity arises the way it does in production) is
// modified twice; neither the parent nor the first derivative may change.

// verifDenItems returns the (at, item) pairs denoted by a set of array-item tuples whose items
// are numbers; other counts everything else.
func verifDenItems(s Set) (d []verifPair, other int) {
	if a, is := s.(Array); is {
		for i, v := range a.values {
			if v == nil {
				d = append(d, verifPair{at: a.offset + i, ok: false})
				continue
			}
			n, isNum := v.(Number)
			if !isNum {
				other++
				continue
			}
			d = append(d, verifPair{at: a.offset + i, v: int(n), ok: true})
		}
		return d, other
	}
	for e := s.Enumerator(); e.MoveNext(); {
		t, is := e.Current().(ArrayItemTuple)
		if !is {
			other++
			continue
		}
		n, isNum := t.item.(Number)
		if !isNum {
			other++
			continue
		}
		d = append(d, verifPair{at: t.at, v: int(n), ok: true})
	}
	return d, other
}

var verifArrayWide bool // thorough tier: wider index range

func verifArrayOp(p Set) (r Set, crashed bool) {
	lo, hi := -1, 4
	if verifArrayWide {
		lo, hi = -2, 5
	}
	at := verifNondetIntIn(lo, hi)
	item := NewNumber(float64(verifNondetIntIn(0, 1)))
	with := verifChoice(2) == 0
	crashed = verifTry(func() {
		if with {
			r = p.With(NewArrayItemTuple(at, item))
		} else {
			r = p.Without(NewArrayItemTuple(at, item))
		}
	})
	return r, crashed
}

// verif:bound VerifC03ArrayBranching parent array of 0..3 items in {0,1} at an offset in [-1,1], 0..1 earlier with/without operation, then two with/without operations on the same parent (index in [-1,4]; thorough: [-2,5]); histories in which an operation panics (several items at one index: known finding under C10) are skipped
// verif:cover VerifC03ArrayBranching branched
func VerifC03ArrayBranching() {
	verifArrayWide = verifThorough()
	n := verifChoice(4)
	items := make([]Value, n)
	for i := range items {
		items[i] = NewNumber(float64(verifNondetIntIn(0, 1)))
	}
	var p Set = NewOffsetArray(verifNondetIntIn(-1, 1), items...)
	for k := verifChoice(2); k > 0; k-- {
		q, crashed := verifArrayOp(p)
		if crashed {
			return
		}
		p = q
	}
	snapP, _ := verifDenItems(p)
	r1, crashed := verifArrayOp(p)
	if crashed {
		return
	}
	snapR1, _ := verifDenItems(r1)
	_, crashed = verifArrayOp(p)
	if crashed {
		return
	}
	verifCover("branched")
	nowP, _ := verifDenItems(p)
	nowR1, _ := verifDenItems(r1)
	verifAssert("parent-unchanged", verifDenEq(nowP, snapP))
	verifAssert("sibling-unchanged", verifDenEq(nowR1, snapR1))
}
