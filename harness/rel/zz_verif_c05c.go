package rel

import (
	"context"

	"github.com/arr-ai/wbnf/parser"
)

// C05 (continued): >>> (the transformer also receives the key) on every sequence representation,
// and >> / >>> on dictionaries and generic {|@, x|} relations.

// verifUF2Body is the body of the keyed transformer: g(i, x) = uf(i, x) clipped to [0,63].
type verifUF2Body struct {
	ExprScanner
}

func (b verifUF2Body) String() string { return "uf(i, x)" }

func (b verifUF2Body) Eval(ctx context.Context, local Scope) (Value, error) {
	i, _ := local.Get("i")
	x, _ := local.Get("x")
	return NewNumber(float64(verifG(int(i.(Number)), int(x.(Number))))), nil
}

func verifG(i, x int) int { return verifUF2("g", i, x) & 63 }

func verifKeyedFn() Expr {
	sc := *parser.NewScanner("")
	return NewFunction(sc, IdentPattern("i"), NewFunction(sc, IdentPattern("x"), verifUF2Body{}))
}

// verif:bound VerifC05SeqArrowAt >>> over String/Bytes/Array of length 1..3 (thorough: 1..4; one hole possible), offset in [-2,2], transformer an uninterpreted function of (index, element) into [0,63]
// verif:cover VerifC05SeqArrowAt with-hole no-hole
func VerifC05SeqArrowAt() {
	rep := verifChoice(3)
	s, d := verifSeqValue(rep, verifWiden(3, 4), true)
	e := NewSeqArrowExpr(true)(*parser.NewScanner(""), s, verifKeyedFn())
	hasHole := false
	for _, p := range d {
		if !p.ok {
			hasHole = true
		}
	}
	if hasHole {
		verifCover("with-hole")
	} else {
		verifCover("no-hole")
	}
	res, err := e.Eval(context.Background(), EmptyScope)
	verifAssert("seqarrow-at-no-error", err == nil)
	if err != nil {
		return
	}
	rs, isSet := res.(Set)
	verifAssert("seqarrow-at-set", isSet)
	if !isSet {
		return
	}
	got := verifDenSeq(rs)
	want := make([]verifPair, len(d))
	for i, p := range d {
		want[i] = verifPair{at: p.at, v: verifG(p.at, p.v), ok: p.ok}
	}
	verifAssert("seqarrow-at-keys-and-values", verifDenEq(got, want))
	verifAssert("seqarrow-at-count", rs.Count() == verifDenCount(want))
}

// verif:bound VerifC05SeqArrowKeyed >> and >>> over a dictionary (1..3 entries, a key may carry several values) or a {|@,x|} relation (1..3 rows; value attribute "x" or "$x"); keys and values integers in [-2,2]; transformer an uninterpreted function into [0,63]
// verif:cover VerifC05SeqArrowKeyed dict relation merged distinct
func VerifC05SeqArrowKeyed() {
	rep := verifChoice(3)
	withAt := verifChoice(2) == 1
	n := 1 + verifChoice(3)
	ks := make([]int, n)
	vs := make([]int, n)
	for i := range ks {
		ks[i] = verifNondetIntIn(-2, 2)
		vs[i] = verifNondetIntIn(-2, 2)
	}
	attr := "x"
	if rep == 2 {
		attr = "$x"
	}
	mk := func(k, v int) Value {
		if rep == 0 {
			return NewDictEntryTuple(NewNumber(float64(k)), NewNumber(float64(v)))
		}
		return NewTuple(NewAttr("@", NewNumber(float64(k))), NewAttr(attr, NewNumber(float64(v))))
	}
	var c Set
	if rep == 0 {
		verifCover("dict")
		es := make([]DictEntryTuple, n)
		for i := range es {
			es[i] = mk(ks[i], vs[i]).(DictEntryTuple)
		}
		c = MustNewDict(true, es...)
	} else {
		verifCover("relation")
		ts := make([]Value, n)
		for i := range ts {
			ts[i] = mk(ks[i], vs[i])
		}
		c = MustNewSet(ts...)
	}
	var fn Expr
	if withAt {
		fn = verifKeyedFn()
	} else {
		fn = NewFunction(*parser.NewScanner(""), IdentPattern("x"), verifUFBody{})
	}
	e := NewSeqArrowExpr(withAt)(*parser.NewScanner(""), c, fn)
	res, err := e.Eval(context.Background(), EmptyScope)
	verifAssert("keyed-arrow-no-error", err == nil)
	if err != nil {
		return
	}
	rs, isSet := res.(Set)
	verifAssert("keyed-arrow-set", isSet)
	if !isSet {
		return
	}
	// reference: the set {(k, f(v))}; count its distinct members
	ws := make([]int, n)
	distinct := 0
	for i := range ks {
		if withAt {
			ws[i] = verifG(ks[i], vs[i])
		} else {
			ws[i] = verifF(vs[i])
		}
		dup := false
		for j := 0; j < i; j++ {
			dup = verifOr(dup, verifAnd(ks[j] == ks[i], ws[j] == ws[i]))
		}
		distinct += verifIte(dup, 0, 1)
	}
	if verifConcretize(distinct, 1, 3) < n {
		verifCover("merged")
	} else {
		verifCover("distinct")
	}
	for i := range ks {
		verifAssert("keyed-arrow-keeps-key-and-maps-value", rs.Has(mk(ks[i], ws[i])))
	}
	verifAssert("keyed-arrow-count", rs.Count() == distinct)
	// nothing foreign: every member is one of the expected pairs
	for it := rs.Enumerator(); it.MoveNext(); {
		t, isT := it.Current().(Tuple)
		verifAssert("keyed-arrow-member-is-tuple", isT)
		if !isT {
			return
		}
		at, _ := t.Get("@")
		name := attr
		if rep == 0 {
			name = "@value"
		}
		v, has := t.Get(name)
		verifAssert("keyed-arrow-member-attr", has && t.Count() == 2)
		if !has {
			return
		}
		an, ok1 := at.(Number)
		vn, ok2 := v.(Number)
		verifAssert("keyed-arrow-member-numbers", ok1 && ok2)
		if !(ok1 && ok2) {
			return
		}
		found := false
		for i := range ks {
			found = verifOr(found, verifAnd(int(an) == ks[i], int(vn) == ws[i]))
		}
		verifAssert("keyed-arrow-no-foreign-member", found)
	}
}
