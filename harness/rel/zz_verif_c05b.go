package rel

import "context"

// C05 (continued): dictionaries and generic {|@, x|} relations called as functions.

// verif:bound VerifC05CallKeyed dict (1..2 entries, duplicate keys allowed) or {|@,x|} relation (1..2 rows; value attribute named "x" or "$x", which sorts before "@"); keys and values integers in [-2,2]; argument integer in [-2,2]
// verif:cover VerifC05CallKeyed hit miss ambiguous
func VerifC05CallKeyed() {
	rep := verifChoice(3)
	n := 1 + verifChoice(2)
	ks := make([]int, n)
	vs := make([]int, n)
	for i := range ks {
		ks[i] = verifNondetIntIn(-2, 2)
		vs[i] = verifNondetIntIn(-2, 2)
	}
	var c Set
	switch rep {
	case 0:
		es := make([]DictEntryTuple, n)
		for i := range es {
			es[i] = NewDictEntryTuple(NewNumber(float64(ks[i])), NewNumber(float64(vs[i])))
		}
		c = MustNewDict(true, es...)
	default:
		attr := "x"
		if rep == 2 {
			attr = "$x"
		}
		ts := make([]Value, n)
		for i := range ts {
			ts[i] = NewTuple(NewAttr("@", NewNumber(float64(ks[i]))), NewAttr(attr, NewNumber(float64(vs[i]))))
		}
		c = MustNewSet(ts...)
	}
	k := verifNondetIntIn(-2, 2)
	// reference: the distinct values paired with k
	cnt := 0
	val := 0
	for i := range ks {
		dup := false
		for j := 0; j < i; j++ {
			dup = verifOr(dup, verifAnd(ks[j] == k, vs[j] == vs[i]))
		}
		hit := verifAnd(ks[i] == k, verifNot(dup))
		cnt += verifIte(hit, 1, 0)
		val = verifIte(hit, vs[i], val)
	}
	res, err := SetCall(context.Background(), c, NewNumber(float64(k)))
	if err == nil {
		verifCover("hit")
		verifAssert("keyed-call-unique", cnt == 1)
		num, is := res.(Number)
		verifAssert("keyed-call-number", is)
		if is {
			verifAssert("keyed-call-value", int(num) == val)
		}
	} else {
		if verifConcretize(cnt, 0, 2) == 0 {
			verifCover("miss")
		} else {
			verifCover("ambiguous")
		}
		verifAssert("keyed-call-error-iff-none-or-many", cnt != 1)
	}
}
