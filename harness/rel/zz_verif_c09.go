package rel

import (
	"context"

	"github.com/arr-ai/wbnf/parser"
)

// C09 — pattern matching binds exactly what construction would produce.
// Patterns are built with the exported constructors; each harness carries a small reference
// matcher written from the language definition.

// pattern item kinds
const (
	piName     = iota // binds a name
	piLit             // literal number
	piRest            // ...name
	piFallback        // name with fallback (outer variable k)
)

type verifItem struct {
	kind int
	name string
	lit  int
}

func verifNumVal(n int) Value { return NewNumber(float64(n)) }

func verifItemPattern(it verifItem) FallbackPattern {
	switch it.kind {
	case piName:
		return NewFallbackPattern(NewIdentPattern(it.name), nil)
	case piLit:
		return NewFallbackPattern(NewExprPattern(verifNumVal(it.lit)), nil)
	case piRest:
		return NewFallbackPattern(NewExtraElementPattern(it.name), nil)
	default:
		return NewFallbackPattern(NewIdentPattern(it.name), NewIdentExpr(*parser.NewScanner(""), "k"))
	}
}

var verifArrayPatterns = [][]verifItem{
	{},
	{{piName, "a", 0}},
	{{piName, "a", 0}, {piName, "b", 0}},
	{{piName, "a", 0}, {piLit, "", 1}},
	{{piName, "a", 0}, {piRest, "r", 0}},
	{{piRest, "r", 0}, {piName, "a", 0}},
	{{piName, "a", 0}, {piRest, "r", 0}, {piName, "b", 0}},
	{{piName, "a", 0}, {piFallback, "b", 0}},
}

// the outer scope of every match: k = 7
const verifOuterK = 7

func verifLocal() Scope { return EmptyScope.With("k", verifNumVal(verifOuterK)) }

func verifBound(label string, sc Scope, name string, want Value) {
	e, has := sc.Get(name)
	verifAssert(label+"-bound-"+name, has)
	if has {
		v, isV := e.(Value)
		verifAssert(label+"-value-"+name, isV && v.Equal(want))
	}
}

// verif:bound VerifC09ArrayPattern 8 array patterns (names, a literal, ...rest at each position, a fallback to an outer variable) against arrays of 0..3 (thorough: 0..4) small integers at offset 0
// verif:cover VerifC09ArrayPattern match no-match rest-middle fallback-used
func VerifC09ArrayPattern() {
	pi := verifChoice(len(verifArrayPatterns))
	items := verifArrayPatterns[pi]
	n := verifChoice(verifWiden(4, 5))
	xs := make([]int, n)
	vals := make([]Value, n)
	for i := range xs {
		xs[i] = verifNondetIntIn(0, 2)
		vals[i] = verifNumVal(xs[i])
	}
	var value Value = NewArray(vals...)
	fps := make([]FallbackPattern, len(items))
	for i, it := range items {
		fps[i] = verifItemPattern(it)
	}
	p := NewArrayPattern(fps...)
	// reference
	restAt, fixed, hasFallback := -1, 0, false
	for i, it := range items {
		switch it.kind {
		case piRest:
			restAt = i
		case piFallback:
			hasFallback = true
			fixed++
		default:
			fixed++
		}
	}
	match := true
	want := map[string]Value{}
	switch {
	case restAt >= 0:
		if n < fixed {
			match = false
		}
	case hasFallback:
		if n != fixed && n != fixed-1 {
			match = false
		}
	default:
		if n != fixed {
			match = false
		}
	}
	if match {
		restLen := n - fixed
		pos := 0
		for _, it := range items {
			switch it.kind {
			case piRest:
				want[it.name] = NewArray(vals[pos : pos+restLen]...)
				pos += restLen
			case piFallback:
				if pos < n {
					want[it.name] = vals[pos]
					pos++
				} else {
					want[it.name] = verifNumVal(verifOuterK)
					verifCover("fallback-used")
				}
			case piLit:
				if xs[pos] != it.lit {
					match = false
				}
				pos++
			default:
				want[it.name] = vals[pos]
				pos++
			}
		}
	}
	_, sc, err := p.Bind(context.Background(), verifLocal(), value)
	if match {
		verifCover("match")
		if restAt == 1 && len(items) == 3 {
			verifCover("rest-middle")
		}
		verifAssert("array-matches", err == nil)
		if err == nil {
			for name, w := range want {
				verifBound("array", sc, name, w)
			}
			verifAssert("array-no-extra-names", sc.Count() == len(want))
		}
	} else {
		verifCover("no-match")
		verifAssert("array-rejects", err != nil)
	}
}

// verif:bound VerifC09TuplePattern 6 tuple patterns over attributes x,y (names, a literal, ...rest, a fallback to an outer variable) against tuples with attributes drawn from {x,y,z}
// verif:cover VerifC09TuplePattern match no-match fallback-used rest
func VerifC09TuplePattern() {
	type tattr struct {
		attr string
		it   verifItem
	}
	pats := [][]tattr{
		{{"x", verifItem{piName, "a", 0}}},
		{{"x", verifItem{piName, "a", 0}}, {"y", verifItem{piName, "b", 0}}},
		{{"x", verifItem{piLit, "", 1}}},
		{{"x", verifItem{piName, "a", 0}}, {"", verifItem{piRest, "r", 0}}},
		{{"x", verifItem{piName, "a", 0}}, {"y", verifItem{piFallback, "b", 0}}},
		{{"y", verifItem{piFallback, "b", 0}}, {"x", verifItem{piName, "a", 0}}},
	}
	pat := pats[verifChoice(len(pats))]
	// value: any subset of {x,y,z}
	var attrs []Attr
	have := map[string]int{}
	for _, name := range []string{"x", "y", "z"} {
		if verifChoice(2) == 1 {
			v := verifNondetIntIn(0, 2)
			have[name] = v
			attrs = append(attrs, NewAttr(name, verifNumVal(v)))
		}
	}
	value := NewTuple(attrs...)
	tas := make([]TuplePatternAttr, len(pat))
	for i, a := range pat {
		tas[i] = NewTuplePatternAttr(a.attr, verifItemPattern(a.it))
	}
	p, perr := NewTuplePattern(tas...)
	verifAssert("tuple-pattern-valid", perr == nil)
	// reference
	match := true
	want := map[string]Value{}
	used := map[string]bool{}
	hasRest := false
	restName := ""
	for _, a := range pat {
		if a.it.kind == piRest {
			hasRest, restName = true, a.it.name
			continue
		}
		v, present := have[a.attr]
		switch {
		case present && a.it.kind == piLit:
			if v != a.it.lit {
				match = false
			}
			used[a.attr] = true
		case present:
			want[a.it.name] = verifNumVal(v)
			used[a.attr] = true
		case a.it.kind == piFallback:
			want[a.it.name] = verifNumVal(verifOuterK)
			if match {
				verifCover("fallback-used")
			}
		default:
			match = false
		}
	}
	var restAttrs []Attr
	for _, name := range []string{"x", "y", "z"} {
		if v, present := have[name]; present && !used[name] {
			if hasRest {
				restAttrs = append(restAttrs, NewAttr(name, verifNumVal(v)))
			} else {
				match = false
			}
		}
	}
	if hasRest {
		want[restName] = NewTuple(restAttrs...)
	}
	_, sc, err := p.Bind(context.Background(), verifLocal(), value)
	if match {
		verifCover("match")
		if hasRest {
			verifCover("rest")
		}
		verifAssert("tuple-matches", err == nil)
		if err == nil {
			for name, w := range want {
				verifBound("tuple", sc, name, w)
			}
			verifAssert("tuple-no-extra-names", sc.Count() == len(want))
		}
	} else {
		verifCover("no-match")
		verifAssert("tuple-rejects", err != nil)
	}
}

// verif:bound VerifC09SetPattern set patterns {a}, {a, 1}, {...r}, {1, ...r} against sets of 0..3 distinct small integers
// verif:cover VerifC09SetPattern match no-match
func VerifC09SetPattern() {
	pk := verifChoice(4)
	// value: subset of {0,1,2}
	var members []Value
	var ints []int
	for v := 0; v < 3; v++ {
		if verifChoice(2) == 1 {
			members = append(members, verifNumVal(v))
			ints = append(ints, v)
		}
	}
	value := MustNewSet(members...)
	has1 := false
	var others []Value
	for i, v := range ints {
		if v == 1 {
			has1 = true
		} else {
			others = append(others, members[i])
		}
	}
	var p SetPattern
	match := true
	want := map[string]Value{}
	switch pk {
	case 0: // {a}
		p = NewSetPattern(NewIdentPattern("a"))
		if len(ints) == 1 {
			want["a"] = members[0]
		} else {
			match = false
		}
	case 1: // {a, 1}
		p = NewSetPattern(NewIdentPattern("a"), NewExprPattern(verifNumVal(1)))
		if has1 && len(others) == 1 {
			want["a"] = others[0]
		} else {
			match = false
		}
	case 2: // {...r}
		p = NewSetPattern(NewExtraElementPattern("r"))
		want["r"] = value
	default: // {1, ...r}
		p = NewSetPattern(NewExprPattern(verifNumVal(1)), NewExtraElementPattern("r"))
		if has1 {
			want["r"] = MustNewSet(others...)
		} else {
			match = false
		}
	}
	_, sc, err := p.Bind(context.Background(), verifLocal(), value)
	if match {
		verifCover("match")
		verifAssert("set-matches", err == nil)
		if err == nil {
			for name, w := range want {
				verifBound("set", sc, name, w)
			}
		}
	} else {
		verifCover("no-match")
		verifAssert("set-rejects", err != nil)
	}
}
