package rel

import (
	"context"

	"github.com/arr-ai/wbnf/parser"
)

// C02 (continued): a join result whose stored column order is a permutation of the sorted
// heading (operand headings interleave) against the literal with the same tuples.

// verif:bound VerifC02JoinedRelations one-row relations over two of {a,b,c,d} each, joined (<&>, no common attribute) in 4 heading splits whose names interleave, against the 4-attribute literal with the same cells and against the literal with two cells swapped; also one step further (with a second row); cells symbolic small integers
// verif:cover VerifC02JoinedRelations joined swapped-equal swapped-unequal
func VerifC02JoinedRelations() {
	cells := map[string]Number{"a": verifSmallNum(), "b": verifSmallNum(), "c": verifSmallNum(), "d": verifSmallNum()}
	splits := [][2][2]string{
		{{"a", "c"}, {"b", "d"}},
		{{"b", "d"}, {"a", "c"}},
		{{"a", "d"}, {"b", "c"}},
		{{"b", "c"}, {"a", "d"}},
	}
	sp := splits[verifChoice(len(splits))]
	row := func(names [2]string) Set {
		return MustNewSet(NewTuple(NewAttr(names[0], cells[names[0]]), NewAttr(names[1], cells[names[1]])))
	}
	j, err := NewJoinExpr(*parser.NewScanner(""), row(sp[0]), row(sp[1])).Eval(context.Background(), EmptyScope)
	verifAssert("joined-ok", err == nil)
	if err != nil {
		return
	}
	verifCover("joined")
	full := func(a, b, c, d Value) Value {
		return NewTuple(NewAttr("a", a), NewAttr("b", b), NewAttr("c", c), NewAttr("d", d))
	}
	lit := MustNewSet(full(cells["a"], cells["b"], cells["c"], cells["d"]))
	verifInterchangeable("joined-vs-literal", lit, j)
	// a relation with two cells exchanged is equal only when those cells are equal
	x, y := [][2]string{{"b", "c"}, {"a", "b"}, {"c", "d"}}[verifChoice(3)], 0
	_ = y
	sw := map[string]Value{"a": cells["a"], "b": cells["b"], "c": cells["c"], "d": cells["d"]}
	sw[x[0]], sw[x[1]] = sw[x[1]], sw[x[0]]
	other := MustNewSet(full(sw["a"], sw["b"], sw["c"], sw["d"]))
	same := cells[x[0]] == cells[x[1]]
	eq := j.Equal(other)
	if eq {
		verifCover("swapped-equal")
	} else {
		verifCover("swapped-unequal")
	}
	verifAssert("joined-equal-iff-same-cells", eq == same)
	verifAssert("joined-equal-iff-same-cells-symmetric", other.Equal(j) == same)
	// one step further: the same extra row added to both is still interchangeable
	extra := full(NewNumber(7), NewNumber(7), NewNumber(7), NewNumber(7))
	verifInterchangeable("joined-with-row-vs-literal", lit.With(extra), j.(Set).With(extra))
}
