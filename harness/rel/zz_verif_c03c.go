package rel

// C03 (continued): dictionaries and generic tuples. A parent (possibly produced by one earlier
// real operation) is modified twice; neither the parent nor the first derivative may change.

func verifDenDict(s Set) (d []verifPair, other int) {
	for e := s.Enumerator(); e.MoveNext(); {
		t, is := e.Current().(DictEntryTuple)
		if !is {
			other++
			continue
		}
		k, isK := t.at.(Number)
		v, isV := t.value.(Number)
		if !isK || !isV {
			other++
			continue
		}
		d = append(d, verifPair{at: int(k), v: int(v), ok: true})
	}
	return d, other
}

func verifDictOp(p Set) (r Set, crashed bool) {
	e := NewDictEntryTuple(NewNumber(float64(verifNondetIntIn(0, 2))), NewNumber(float64(verifNondetIntIn(0, 1))))
	with := verifChoice(2) == 0
	crashed = verifTry(func() {
		if with {
			r = p.With(e)
		} else {
			r = p.Without(e)
		}
	})
	return r, crashed
}

// verif:bound VerifC03DictBranching parent dictionary of 0..2 entries (keys in [0,2], values in {0,1}, a key may carry two values), 0..1 earlier with/without operation, then two with/without operations on the same parent
// verif:cover VerifC03DictBranching branched
func VerifC03DictBranching() {
	n := verifChoice(3)
	entries := make([]DictEntryTuple, n)
	for i := range entries {
		entries[i] = NewDictEntryTuple(NewNumber(float64(verifNondetIntIn(0, 2))), NewNumber(float64(verifNondetIntIn(0, 1))))
	}
	var p Set = MustNewDict(true, entries...)
	if verifChoice(2) == 1 {
		q, crashed := verifDictOp(p)
		if crashed {
			return
		}
		p = q
	}
	snapP, _ := verifDenDict(p)
	r1, crashed := verifDictOp(p)
	if crashed {
		return
	}
	snapR1, _ := verifDenDict(r1)
	if _, crashed = verifDictOp(p); crashed {
		return
	}
	verifCover("branched")
	nowP, _ := verifDenDict(p)
	nowR1, _ := verifDenDict(r1)
	verifAssert("parent-unchanged", verifDenEq(nowP, snapP))
	verifAssert("sibling-unchanged", verifDenEq(nowR1, snapR1))
}

func verifDenTuple(t Tuple) (d []verifPair) {
	names := []string{"a", "b", "c"}
	for k, name := range names {
		if v, has := t.Get(name); has {
			if n, is := v.(Number); is {
				d = append(d, verifPair{at: k, v: int(n), ok: true})
			}
		}
	}
	return d
}

func verifTupleOp(p Tuple) Tuple {
	name := []string{"a", "b", "c"}[verifChoice(3)]
	switch verifChoice(3) {
	case 0:
		return p.With(name, NewNumber(float64(verifNondetIntIn(0, 2))))
	case 1:
		return p.Without(name)
	default:
		// Merge gives nil when the two tuples disagree on an attribute
		if m := Merge(p, NewTuple(NewAttr(name, NewNumber(float64(verifNondetIntIn(0, 2)))))); m != nil {
			return m
		}
		return p
	}
}

// verif:bound VerifC03TupleBranching parent tuple over a subset of {a,b,c} (values in [0,2]), 0..1 earlier With/Without/Merge, then two such operations on the same parent; the parent's lazily cached name lists are forced before and after
// verif:cover VerifC03TupleBranching branched
func VerifC03TupleBranching() {
	var attrs []Attr
	for _, name := range []string{"a", "b", "c"} {
		if verifChoice(2) == 1 {
			attrs = append(attrs, NewAttr(name, NewNumber(float64(verifNondetIntIn(0, 2)))))
		}
	}
	p := NewTuple(attrs...)
	if verifChoice(2) == 1 {
		p = verifTupleOp(p)
	}
	namesBefore := p.Names().Count()
	snapP := verifDenTuple(p)
	r1 := verifTupleOp(p)
	snapR1 := verifDenTuple(r1)
	r1Names := r1.Names().Count()
	_ = verifTupleOp(p)
	verifCover("branched")
	verifAssert("parent-unchanged", verifDenEq(verifDenTuple(p), snapP) && p.Names().Count() == namesBefore && p.Count() == len(snapP))
	verifAssert("sibling-unchanged", verifDenEq(verifDenTuple(r1), snapR1) && r1.Names().Count() == r1Names && r1.Count() == len(snapR1))
}
