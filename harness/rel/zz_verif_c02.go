package rel

import (
	"context"

	"github.com/arr-ai/wbnf/parser"
)

// C02 — equality is extensional; equal values are interchangeable.

// verif:bound VerifC02EqualSymmetricHash pairs over the 18-kind universe of VerifC06Trichotomy: Equal is symmetric and Equal implies equal Hash for every seed (hash primitives uninterpreted)
// verif:cover VerifC02EqualSymmetricHash equal unequal
func VerifC02EqualSymmetricHash() {
	ka := verifChoice(vkCount)
	kb := verifChoice(vkCount)
	a := verifGenValue(ka)
	b := verifGenValue(kb)
	var ab, ba bool
	p := verifTry(func() {
		ab = a.Equal(b)
		ba = b.Equal(a)
	})
	verifAssert("equal-no-panic", !p)
	if p {
		return
	}
	verifAssert("equal-symmetric", ab == ba)
	verifAssert("equal-reflexive", a.Equal(a))
	if ab {
		verifCover("equal")
		seed := uintptr(verifNondetInt())
		verifAssert("equal-implies-same-hash", a.Hash(seed) == b.Hash(seed))
	} else {
		verifCover("unequal")
	}
}

func verifInterchangeable(label string, a, b Value) {
	var ab, ba bool
	p := verifTry(func() {
		ab = a.Equal(b)
		ba = b.Equal(a)
	})
	verifAssert(label+"-no-panic", !p)
	if p {
		return
	}
	verifAssert(label+"-equal", ab)
	verifAssert(label+"-equal-symmetric", ba)
	if !(ab && ba) {
		return
	}
	seed := uintptr(verifNondetInt())
	verifAssert(label+"-same-hash", a.Hash(seed) == b.Hash(seed))
	sa, isA := a.(Set)
	sb, isB := b.(Set)
	if isA && isB {
		verifAssert(label+"-same-count", sa.Count() == sb.Count())
	}
	verifAssert(label+"-one-member", MustNewSet(a, b).Count() == 1)
	verifAssert(label+"-same-kind-order", !a.Less(b) && !b.Less(a))
}

// verif:bound VerifC02Canonical 12 pairs of construction paths reaching one denotation (constructor vs set builder, duplicates offered to the builder, attribute order, without-then-rebuild, join result vs literal); cells symbolic small integers / chars
// verif:cover VerifC02Canonical array string bytes tuple relation dict
func VerifC02Canonical() {
	x, y := verifSmallNum(), verifSmallNum()
	c1, c2 := verifSmallChar(), verifSmallChar()
	switch verifChoice(12) {
	case 0:
		verifCover("array")
		verifInterchangeable("array-builder", NewArray(x, y), MustNewSet(NewArrayItemTuple(0, x), NewArrayItemTuple(1, y)))
	case 1:
		verifInterchangeable("array-builder-duplicate", NewArray(x), MustNewSet(NewArrayItemTuple(0, x), NewArrayItemTuple(0, x)))
	case 2:
		verifCover("string")
		verifInterchangeable("string-builder", NewString([]rune{c1, c2}), MustNewSet(NewStringCharTuple(0, c1), NewStringCharTuple(1, c2)))
	case 3:
		verifInterchangeable("string-builder-duplicate", NewString([]rune{c1}), MustNewSet(NewStringCharTuple(0, c1), NewStringCharTuple(0, c1)))
	case 4:
		verifCover("bytes")
		verifInterchangeable("bytes-builder", NewBytes([]byte{byte(c1), byte(c2)}), MustNewSet(NewBytesByteTuple(0, byte(c1)), NewBytesByteTuple(1, byte(c2))))
	case 5:
		verifCover("tuple")
		verifInterchangeable("tuple-attr-order", NewTuple(NewAttr("a", x), NewAttr("b", y)), NewTuple(NewAttr("b", y), NewAttr("a", x)))
	case 6:
		verifInterchangeable("tuple-with-chain", NewTuple(NewAttr("a", x), NewAttr("b", y)), EmptyTuple.With("b", y).With("a", x))
	case 7:
		verifCover("relation")
		lit := MustNewSet(NewTuple(NewAttr("a", x), NewAttr("b", y), NewAttr("c", y)))
		l := MustNewSet(NewTuple(NewAttr("b", y), NewAttr("c", y)))
		r := MustNewSet(NewTuple(NewAttr("a", x)))
		j, err := NewJoinExpr(*parser.NewScanner(""), l, r).Eval(context.Background(), EmptyScope)
		verifAssert("join-ok", err == nil)
		if err == nil {
			verifInterchangeable("relation-join-vs-literal", lit, j)
		}
	case 8:
		verifCover("dict")
		e1, e2 := NewDictEntryTuple(NewNumber(1), x), NewDictEntryTuple(NewNumber(2), y)
		verifInterchangeable("dict-entry-order", MustNewDict(false, e1, e2), MustNewDict(false, e2, e1))
	case 9:
		s := NewString([]rune{c1, c2, c1})
		verifInterchangeable("string-without-first", s.Without(NewStringCharTuple(0, c1)), NewOffsetString([]rune{c2, c1}, 1))
	case 10:
		a := NewArray(x, y, x)
		verifInterchangeable("array-without-first", a.Without(NewArrayItemTuple(0, x)), NewOffsetArray(1, y, x))
	default:
		// remove the middle, then the first: what remains is the single last item
		a := NewArray(x, y, x).Without(NewArrayItemTuple(1, y)).Without(NewArrayItemTuple(0, x))
		verifInterchangeable("array-without-middle-then-first", a, NewOffsetArray(2, x))
	}
}
