// Package hash (verification model): replaces github.com/arr-ai/hash for symbolic execution.
// The primitive hash functions are uninterpreted functions supplied by the executor (body-less
// declarations below); Any reproduces the dynamic dispatch of the real package.
package hash

type Seed = uintptr

type Hashable interface {
	Hash(seed Seed) Seed
}

func Bool(b bool, seed Seed) Seed
func Int(x int, seed Seed) Seed
func Int8(x int8, seed Seed) Seed
func Int16(x int16, seed Seed) Seed
func Int32(x int32, seed Seed) Seed
func Int64(x int64, seed Seed) Seed
func Uint(x uint, seed Seed) Seed
func Uint8(x uint8, seed Seed) Seed
func Uint16(x uint16, seed Seed) Seed
func Uint32(x uint32, seed Seed) Seed
func Uint64(x uint64, seed Seed) Seed
func Uintptr(x, seed Seed) Seed
func Float64(f float64, seed Seed) Seed
func String(s string, seed Seed) Seed

// modelUnsupported marks the path incomplete.
func modelUnsupported(what string) Seed

func Interface(a interface{}, seed Seed) Seed { return Any(a, seed) }

func Any(i interface{}, seed Seed) Seed {
	switch k := i.(type) {
	case Hashable:
		return k.Hash(seed)
	case int:
		return Int(k, seed)
	case string:
		return String(k, seed)
	case uint64:
		return Uint64(k, seed)
	case float64:
		return Float64(k, seed)
	case bool:
		return Bool(k, seed)
	case uintptr:
		return Uintptr(k, seed)
	case uint:
		return Uint(k, seed)
	case int64:
		return Int64(k, seed)
	case int32:
		return Int32(k, seed)
	case uint8:
		return Uint8(k, seed)
	case []interface{}:
		h := seed
		for _, e := range k {
			h = Any(e, h)
		}
		return h
	}
	return modelUnsupported("hash.Any of a type hashed by reflection")
}

func GetSeeds() (a []byte, h []uintptr)        { return nil, nil }
func SetSeeds(a []byte, h []uintptr) error     { return nil }

// ModelFmtState is the fmt.State handed to guest Format methods by the executor's fmt-lite.
type ModelFmtState struct {
	buf     []byte
	flags   string
	wid     int
	prec    int
	hasWid  bool
	hasPrec bool
}

func (s *ModelFmtState) Write(b []byte) (int, error) {
	s.buf = append(s.buf, b...)
	return len(b), nil
}

func (s *ModelFmtState) WriteString(x string) (int, error) {
	s.buf = append(s.buf, x...)
	return len(x), nil
}

func (s *ModelFmtState) Width() (int, bool)     { return s.wid, s.hasWid }
func (s *ModelFmtState) Precision() (int, bool) { return s.prec, s.hasPrec }
func (s *ModelFmtState) Flag(c int) bool {
	for i := 0; i < len(s.flags); i++ {
		if int(s.flags[i]) == c {
			return true
		}
	}
	return false
}
