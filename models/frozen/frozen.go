// Package frozen (verification model). This file replaces github.com/arr-ai/frozen when /repo is
// loaded for symbolic execution: sets and maps are insertion-ordered lists whose element
// equality is decided by the element's own Equal/Same method (or ==), exactly like
// frozen/internal/pkg/value.Equal. The claim of every check is about arr.ai's code GIVEN that
// frozen is a correct finite set/map under the equality it is handed.
package frozen

import (
	"github.com/arr-ai/hash"
)

// body-less: intercepted by the executor.
func modelChoice(n int) int  // 0 unless order-free mode is on, then an arbitrary value in [0,n)
func modelOrderFree() bool   // true in order-free mode (C07 harnesses) while the deviation budget lasts
func modelDeviated()         // one iteration left insertion order: spends one unit of the deviation budget

type equaler[T any] interface{ Equal(t T) bool }
type samer interface{ Same(a any) bool }

func equal[T any](a, b T) bool {
	var i any = a
	switch a := i.(type) {
	case equaler[T]:
		return a.Equal(b)
	case samer:
		return a.Same(b)
	}
	return i == any(b)
}

// order returns the elements in iteration order: insertion order, or - in order-free mode and
// while the deviation budget lasts - another order: any permutation of up to 3 elements, any
// single transposition of more.
func order[T any](elems []T) []T {
	n := len(elems)
	if n < 2 || !modelOrderFree() {
		return elems
	}
	out := make([]T, n)
	copy(out, elems)
	if n <= 3 {
		rest := make([]T, n)
		copy(rest, elems)
		out = out[:0]
		deviated := false
		for len(rest) > 1 {
			k := modelChoice(len(rest))
			if k != 0 {
				deviated = true
			}
			out = append(out, rest[k])
			rest = append(rest[:k], rest[k+1:]...)
		}
		if deviated {
			modelDeviated()
		}
		return append(out, rest[0])
	}
	k := modelChoice(1 + n*(n-1)/2)
	if k == 0 {
		return elems
	}
	modelDeviated()
	k--
	for i := 0; i < n; i++ {
		if k < n-1-i {
			j := i + 1 + k
			out[i], out[j] = out[j], out[i]
			break
		}
		k -= n - 1 - i
	}
	return out
}

// Key represents a type that can be used as a key in a Map or a Set.
type Key[T any] interface {
	Equal(t T) bool
	Hash(seed uintptr) uintptr
}

// ---------------------------------------------------------------- Set

type Set[T any] struct {
	elems []T // pairwise non-equal; never mutated after construction
}

type Iterator[T any] interface {
	Next() bool
	Value() T
}

type sliceIter[T any] struct {
	s []T
	i int
}

func (it *sliceIter[T]) Next() bool {
	it.i++
	return it.i <= len(it.s)
}

func (it *sliceIter[T]) Value() T { return it.s[it.i-1] }

func NewSet[T any](values ...T) Set[T] {
	var b SetBuilder[T]
	for _, v := range values {
		b.Add(v)
	}
	return b.Finish()
}

func (s Set[T]) IsEmpty() bool { return len(s.elems) == 0 }
func (s Set[T]) Count() int    { return len(s.elems) }

func (s Set[T]) Range() Iterator[T] { return &sliceIter[T]{s: order(s.elems)} }

func (s Set[T]) Elements() []T {
	o := order(s.elems)
	out := make([]T, len(o))
	copy(out, o)
	return out
}

func (s Set[T]) OrderedElements(less func(a, b T) bool) []T {
	out := s.Elements()
	// insertion sort with the caller's less
	for i := 1; i < len(out); i++ {
		for j := i; j > 0 && less(out[j], out[j-1]); j-- {
			out[j], out[j-1] = out[j-1], out[j]
		}
	}
	return out
}

func (s Set[T]) OrderedRange(less func(a, b T) bool) Iterator[T] {
	return &sliceIter[T]{s: s.OrderedElements(less)}
}

func (s Set[T]) OrderedFirstN(n int, less func(a, b T) bool) []T {
	out := s.OrderedElements(less)
	if n < len(out) {
		out = out[:n]
	}
	return out
}

func (s Set[T]) First(less func(a, b T) bool) any {
	if len(s.elems) == 0 {
		panic("Set[T].First(): empty set")
	}
	return s.OrderedElements(less)[0]
}

func (s Set[T]) Any() T {
	if len(s.elems) == 0 {
		panic("Set[T].Any(): empty set")
	}
	return order(s.elems)[0]
}

func (s Set[T]) AnyN(n int) Set[T] {
	o := order(s.elems)
	if n < len(o) {
		o = o[:n]
	}
	return Set[T]{elems: o}
}

func (s Set[T]) index(v T) int {
	for i, e := range s.elems {
		if equal(e, v) {
			return i
		}
	}
	return -1
}

func (s Set[T]) Has(v T) bool { return s.index(v) >= 0 }

func (s Set[T]) With(v T) Set[T] {
	out := make([]T, len(s.elems), len(s.elems)+1)
	copy(out, s.elems)
	if i := s.index(v); i >= 0 {
		out[i] = v
		return Set[T]{elems: out}
	}
	return Set[T]{elems: append(out, v)}
}

func (s Set[T]) Without(v T) Set[T] {
	i := s.index(v)
	if i < 0 {
		return s
	}
	out := make([]T, 0, len(s.elems)-1)
	out = append(out, s.elems[:i]...)
	out = append(out, s.elems[i+1:]...)
	return Set[T]{elems: out}
}

func (s Set[T]) Where(pred func(elem T) bool) Set[T] {
	var out []T
	for _, e := range order(s.elems) {
		if pred(e) {
			out = append(out, e)
		}
	}
	return Set[T]{elems: out}
}

func (s Set[T]) Union(t Set[T]) Set[T] {
	r := s
	for _, e := range t.elems {
		r = r.With(e)
	}
	return r
}

func (s Set[T]) Intersection(t Set[T]) Set[T] {
	var out []T
	for _, e := range s.elems {
		if t.Has(e) {
			out = append(out, e)
		}
	}
	return Set[T]{elems: out}
}

func (s Set[T]) Difference(t Set[T]) Set[T] {
	var out []T
	for _, e := range s.elems {
		if !t.Has(e) {
			out = append(out, e)
		}
	}
	return Set[T]{elems: out}
}

func (s Set[T]) SymmetricDifference(t Set[T]) Set[T] {
	return s.Difference(t).Union(t.Difference(s))
}

func (s Set[T]) IsSubsetOf(t Set[T]) bool {
	for _, e := range s.elems {
		if !t.Has(e) {
			return false
		}
	}
	return true
}

func (s Set[T]) Equal(t Set[T]) bool {
	return len(s.elems) == len(t.elems) && s.IsSubsetOf(t)
}

func (s Set[T]) Same(a any) bool {
	t, is := a.(Set[T])
	return is && s.Equal(t)
}

func (s Set[T]) Hash(seed uintptr) uintptr {
	h := hash.Uintptr(uintptr(10538386443025343807), seed)
	for _, e := range s.elems {
		h ^= hash.Any(e, seed)
	}
	return h
}

func (s Set[T]) Reduce(reduce func(elems ...T) T) (T, bool) {
	if len(s.elems) == 0 {
		var z T
		return z, false
	}
	return reduce(order(s.elems)...), true
}

func (s Set[T]) Reduce2(reduce func(a, b T) T) (T, bool) {
	return s.Reduce(func(elems ...T) T {
		acc := elems[0]
		for _, elem := range elems[1:] {
			acc = reduce(acc, elem)
		}
		return acc
	})
}

func (s Set[T]) AsSetAny() Set[any] {
	var sb SetBuilder[any]
	for _, e := range s.elems {
		sb.Add(e)
	}
	return sb.Finish()
}

func (s Set[T]) String() string { return "frozen.Set(model)" }

func SetAs[U, T any](s Set[T]) Set[U] {
	var sb SetBuilder[U]
	for _, e := range s.elems {
		var x any = e
		sb.Add(x.(U))
	}
	return sb.Finish()
}

func SetMap[T, U any](s Set[T], f func(elem T) U) Set[U] {
	var sb SetBuilder[U]
	for _, e := range order(s.elems) {
		sb.Add(f(e))
	}
	return sb.Finish()
}

func SetGroupBy[T, K any](s Set[T], key func(el T) K) Map[K, Set[T]] {
	var ks []K
	var gs []Set[T]
	for _, v := range order(s.elems) {
		k := key(v)
		found := false
		for i := range ks {
			if equal(ks[i], k) {
				gs[i] = gs[i].With(v)
				found = true
				break
			}
		}
		if !found {
			ks = append(ks, k)
			gs = append(gs, NewSet(v))
		}
	}
	return Map[K, Set[T]]{keys: ks, vals: gs}
}

func Powerset[T any](s Set[T]) Set[Set[T]] {
	n := len(s.elems)
	if n > 63 {
		panic("set too large")
	}
	out := make([]Set[T], 0, 1<<uint(n))
	for m := 0; m < 1<<uint(n); m++ {
		var sub []T
		for i := 0; i < n; i++ {
			if m&(1<<uint(i)) != 0 {
				sub = append(sub, s.elems[i])
			}
		}
		out = append(out, Set[T]{elems: sub})
	}
	return Set[Set[T]]{elems: out}
}

func Union[T any](sets ...Set[T]) Set[T] {
	var r Set[T]
	for _, s := range sets {
		r = r.Union(s)
	}
	return r
}

func Intersection[T any](sets ...Set[T]) Set[T] {
	if len(sets) == 0 {
		return Set[T]{}
	}
	r := sets[0]
	for _, s := range sets[1:] {
		r = r.Intersection(s)
	}
	return r
}

// ---------------------------------------------------------------- SetBuilder

type SetBuilder[T any] struct {
	s Set[T]
}

func NewSetBuilder[T any](capacity int) *SetBuilder[T] { return &SetBuilder[T]{} }

func (b *SetBuilder[T]) Count() int     { return b.s.Count() }
func (b *SetBuilder[T]) Add(v T)        { b.s = b.s.With(v) }
func (b *SetBuilder[T]) Remove(v T)     { b.s = b.s.Without(v) }
func (b *SetBuilder[T]) Has(v T) bool   { return b.s.Has(v) }
func (b *SetBuilder[T]) Finish() Set[T] { s := b.s; b.s = Set[T]{}; return s }

// ---------------------------------------------------------------- Map

type KeyValue[K, V any] struct {
	Key   K
	Value V
}

func KV[K, V any](k K, v V) KeyValue[K, V] { return KeyValue[K, V]{Key: k, Value: v} }

func (kv KeyValue[K, V]) Hash(seed uintptr) uintptr { return hash.Any(kv.Key, seed) }

func (kv KeyValue[K, V]) Equal(kv2 KeyValue[K, V]) bool {
	return equal(kv.Key, kv2.Key) && equal(kv.Value, kv2.Value)
}

func (kv KeyValue[K, V]) Same(a any) bool {
	kv2, is := a.(KeyValue[K, V])
	return is && kv.Equal(kv2)
}

type Map[K any, V any] struct {
	keys []K
	vals []V
}

func NewMap[K any, V any](kvs ...KeyValue[K, V]) Map[K, V] {
	var m Map[K, V]
	for _, kv := range kvs {
		m = m.With(kv.Key, kv.Value)
	}
	return m
}

func NewMapFromKeys[K any, V any](keys Set[K], f func(key K) V) Map[K, V] {
	var m Map[K, V]
	for _, k := range keys.elems {
		m = m.With(k, f(k))
	}
	return m
}

func NewMapFromGoMap[K comparable, V any](gm map[K]V) Map[K, V] {
	var m Map[K, V]
	for k, v := range gm {
		m = m.With(k, v)
	}
	return m
}

func MapToGoMap[K comparable, V any](m Map[K, V]) map[K]V {
	result := make(map[K]V, m.Count())
	for i := range m.keys {
		result[m.keys[i]] = m.vals[i]
	}
	return result
}

func MapMap[K, V, U any](m Map[K, V], f func(key K, val V) U) Map[K, U] {
	out := Map[K, U]{}
	for i := range m.keys {
		out = out.With(m.keys[i], f(m.keys[i], m.vals[i]))
	}
	return out
}

func (m Map[K, V]) IsEmpty() bool { return len(m.keys) == 0 }
func (m Map[K, V]) Count() int    { return len(m.keys) }

func (m Map[K, V]) index(k K) int {
	for i, e := range m.keys {
		if equal(e, k) {
			return i
		}
	}
	return -1
}

func (m Map[K, V]) perm() []int {
	idx := make([]int, len(m.keys))
	for i := range idx {
		idx[i] = i
	}
	return order(idx)
}

func (m Map[K, V]) Any() (key K, value V) {
	if len(m.keys) == 0 {
		panic("empty map")
	}
	i := m.perm()[0]
	return m.keys[i], m.vals[i]
}

func (m Map[K, V]) With(key K, val V) Map[K, V] {
	n := len(m.keys)
	ks := make([]K, n, n+1)
	vs := make([]V, n, n+1)
	copy(ks, m.keys)
	copy(vs, m.vals)
	if i := m.index(key); i >= 0 {
		ks[i] = key
		vs[i] = val
		return Map[K, V]{keys: ks, vals: vs}
	}
	return Map[K, V]{keys: append(ks, key), vals: append(vs, val)}
}

func (m Map[K, V]) Without(key K) Map[K, V] {
	i := m.index(key)
	if i < 0 {
		return m
	}
	ks := make([]K, 0, len(m.keys)-1)
	vs := make([]V, 0, len(m.keys)-1)
	ks = append(append(ks, m.keys[:i]...), m.keys[i+1:]...)
	vs = append(append(vs, m.vals[:i]...), m.vals[i+1:]...)
	return Map[K, V]{keys: ks, vals: vs}
}

func (m Map[K, V]) Has(key K) bool { return m.index(key) >= 0 }

func (m Map[K, V]) Get(key K) (_ V, _ bool) {
	if i := m.index(key); i >= 0 {
		return m.vals[i], true
	}
	var z V
	return z, false
}

func (m Map[K, V]) MustGet(key K) V {
	if i := m.index(key); i >= 0 {
		return m.vals[i]
	}
	panic("key not found")
}

func (m Map[K, V]) GetElse(key K, deflt V) V {
	if i := m.index(key); i >= 0 {
		return m.vals[i]
	}
	return deflt
}

func (m Map[K, V]) GetElseFunc(key K, deflt func() V) V {
	if i := m.index(key); i >= 0 {
		return m.vals[i]
	}
	return deflt()
}

func (m Map[K, V]) Keys() Set[K] {
	var b SetBuilder[K]
	for _, i := range m.perm() {
		b.Add(m.keys[i])
	}
	return b.Finish()
}

func (m Map[K, V]) Values() Set[V] {
	var b SetBuilder[V]
	for _, i := range m.perm() {
		b.Add(m.vals[i])
	}
	return b.Finish()
}

func (m Map[K, V]) Project(keys ...K) Map[K, V] {
	var out Map[K, V]
	for _, k := range keys {
		if i := m.index(k); i >= 0 {
			out = out.With(k, m.vals[i])
		}
	}
	return out
}

func (m Map[K, V]) Where(pred func(key K, val V) bool) Map[K, V] {
	var out Map[K, V]
	for _, i := range m.perm() {
		if pred(m.keys[i], m.vals[i]) {
			out.keys = append(out.keys, m.keys[i])
			out.vals = append(out.vals, m.vals[i])
		}
	}
	return out
}

func (m Map[K, V]) Merge(n Map[K, V], resolve func(key K, a, b V) V) Map[K, V] {
	out := m
	for j := range n.keys {
		if i := out.index(n.keys[j]); i >= 0 {
			out = out.With(out.keys[i], resolve(out.keys[i], out.vals[i], n.vals[j]))
		} else {
			out = out.With(n.keys[j], n.vals[j])
		}
	}
	return out
}

func (m Map[K, V]) Update(n Map[K, V]) Map[K, V] {
	out := m
	for j := range n.keys {
		out = out.With(n.keys[j], n.vals[j])
	}
	return out
}

func (m Map[K, V]) Hash(seed uintptr) uintptr {
	h := hash.Uintptr(uintptr(3167960924819262823), seed)
	for i := range m.keys {
		h ^= hash.Any(m.vals[i], hash.Any(m.keys[i], seed))
	}
	return h
}

func (m Map[K, V]) Equal(n Map[K, V]) bool {
	if len(m.keys) != len(n.keys) {
		return false
	}
	for i := range m.keys {
		j := n.index(m.keys[i])
		if j < 0 || !equal(m.vals[i], n.vals[j]) {
			return false
		}
	}
	return true
}

func (m Map[K, V]) Same(a any) bool {
	n, is := a.(Map[K, V])
	return is && m.Equal(n)
}

func (m Map[K, V]) String() string { return "frozen.Map(model)" }

func (m Map[K, V]) Range() MapIterator[K, V] {
	return MapIterator[K, V]{m: m, idx: m.perm()}
}

type MapIterator[K any, V any] struct {
	m   Map[K, V]
	idx []int
	i   int
}

func (i *MapIterator[K, V]) Next() bool {
	i.i++
	return i.i <= len(i.idx)
}

func (i *MapIterator[K, V]) Key() K   { return i.m.keys[i.idx[i.i-1]] }
func (i *MapIterator[K, V]) Value() V { return i.m.vals[i.idx[i.i-1]] }
func (i *MapIterator[K, V]) Entry() (key K, value V) {
	k := i.idx[i.i-1]
	return i.m.keys[k], i.m.vals[k]
}

// ---------------------------------------------------------------- MapBuilder

type MapBuilder[K any, V any] struct {
	m Map[K, V]
}

func NewMapBuilder[K any, V any](capacity int) *MapBuilder[K, V] { return &MapBuilder[K, V]{} }

func (b *MapBuilder[K, V]) Count() int             { return b.m.Count() }
func (b *MapBuilder[K, V]) Put(key K, value V)     { b.m = b.m.With(key, value) }
func (b *MapBuilder[K, V]) Remove(key K)           { b.m = b.m.Without(key) }
func (b *MapBuilder[K, V]) Get(key K) (V, bool)    { return b.m.Get(key) }
func (b *MapBuilder[K, V]) Has(key K) bool         { return b.m.Has(key) }
func (b *MapBuilder[K, V]) Finish() Map[K, V]      { m := b.m; b.m = Map[K, V]{}; return m }
